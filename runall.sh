#!/bin/sh
# runs the quick (or $1) tier of every registered check and prints a summary
tier=${1:-quick}
for p in $(python3 -c "import json;print(' '.join(c['property_id'] for c in json.load(open('/verif/MANIFEST.json'))['checks']))"); do
  s=$(date +%s)
  out=$(./check $p --tier $tier 2>&1); rc=$?
  e=$(date +%s)
  echo "$p rc=$rc $((e-s))s $(echo "$out" | grep -E '^property=' | sed 's/property=[A-Z0-9]* //')"
  if [ $rc -ne 0 ]; then echo "$out" | grep -E 'VIOLATION|INCONCLUSIVE|KNOWN' | head -5; fi
done
