#!/usr/bin/env python3
import json,sys,glob,collections
files=sys.argv[1:]
seen=collections.Counter()
for f in files:
    r=json.load(open(f))
    vals=[]
    for v in r['values']:
        if v['kind']=='string': vals.append(repr(bytes(v.get('bytes') or [])))
        else: vals.append('%s:%d'%(v['kind'][0],v['int']))
    print(f.split('/')[-1][:28], r['harness'], r['shape'], '|', r['msg'], '|', ' '.join(vals))
