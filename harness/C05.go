//go:build verif

package flags

import "strings"

// C05 - defaults and value-source precedence.

type c05G struct {
	N string `long:"n" env:"N" default:"D"`
}
type c05In struct {
	N2 string `long:"n2" env:"N2" default:"D"`
}
type c05Out struct {
	In c05In `group:"gin" env-namespace:"IN" namespace:"in"`
}
type c05Cmd struct {
	CS string `long:"cs" env:"ZCS" default:"D"`
}
type c05Rm struct {
	RS string `long:"rs"`
}
type c05Decl struct {
	S  string            `long:"s" env:"ZS"`
	Sd string            `long:"sd" env:"ZSD" default:"D"`
	L  []string          `long:"l" env:"ZL" env-delim:","`
	Ld []string          `long:"ld" env:"ZLD" env-delim:"," default:"D1" default:"D2"`
	M  map[string]string `long:"m" env:"ZM" env-delim:","`
	Md map[string]string `long:"md" env:"ZMD" env-delim:"," default:"d:1"`
	P  *string           `long:"p" env:"ZP"`
	G  c05G              `group:"g" env-namespace:"NS" namespace:"g"`
	O  c05Out            `group:"gout" env-namespace:"OUT" namespace:"out"`
	// an option with an optional argument: given without one it takes its
	// optional value, which lower-ranked sources must not overwrite
	OV string `long:"ov" optional:"yes" optional-value:"OPT" env:"ZOV" default:"D"`
	// an option of a command: it gets its defaults whether or not the command is selected
	Add c05Cmd `command:"add"`
	Rm  c05Rm  `command:"rm"`
}

var c05Keys = []string{"s", "sd", "l", "ld", "m", "md", "p", "g.n", "out.in.n2", "cs", "ov"}
var c05Env = []string{"ZS", "ZSD", "ZL", "ZLD", "ZM", "ZMD", "ZP", "NS_N", "OUT_IN_N2", "ZCS", "ZOV"}
var c05HasDef = []bool{false, true, false, true, false, true, false, true, true, true, true}

func c05Kind(opt int) int { // 0 scalar, 1 slice, 2 map, 3 pointer
	switch opt {
	case 2, 3:
		return 1
	case 4, 5:
		return 2
	case 6:
		return 3
	}
	return 0
}

func c05Get(o *c05Decl, opt int) []string {
	switch opt {
	case 0:
		return []string{o.S}
	case 1:
		return []string{o.Sd}
	case 2:
		return append([]string{}, o.L...)
	case 3:
		return append([]string{}, o.Ld...)
	case 4, 5:
		m := o.M
		if opt == 5 {
			m = o.Md
		}
		var out []string
		for _, k := range []string{"c", "d", "e", "i", "n"} {
			if x, ok := m[k]; ok {
				out = append(out, k+":"+x)
			}
		}
		if len(out) != len(m) {
			out = append(out, "<other keys>")
		}
		return out
	case 6:
		if o.P == nil {
			return []string{"<nil>"}
		}
		return []string{*o.P}
	}
	if opt == 8 {
		return []string{o.O.In.N2}
	}
	if opt == 9 {
		return []string{o.Add.CS}
	}
	if opt == 10 {
		return []string{o.OV}
	}
	return []string{o.G.N}
}

// c05Tok: a value token that every source can carry verbatim.
func c05Tok(v *V) string {
	s := v.String(1)
	v.Assume(s[0] > ' ' && s[0] < 0x7f && s[0] != '"' && s[0] != ',' && s[0] != ':' && s[0] != '-' && s[0] != '=')
	return s
}

// c05EnvTok: an environment value is taken verbatim - it may be a double
// quote or any other printable byte (only the delimiter and ':' are excluded).
func c05EnvTok(v *V) string {
	s := v.String(1)
	v.Assume(s[0] > ' ' && s[0] < 0x7f && s[0] != ',' && s[0] != ':')
	return s
}

// H_C05_rank: one option, every subset of sources, symbolic values.
func H_C05_rank(v *V) {
	opt := v.Shape("opt")
	kind := c05Kind(opt)
	key := c05Keys[opt]
	hasInit := v.Choice(2) == 1
	envState := v.Choice(3) // 0 unset, 1 set, 2 set but empty
	hasIni := v.Choice(2) == 1
	hasCli := v.Choice(2) == 1
	mode := 0 // 0: INI normal before CLI; 1: as-defaults before CLI; 2: as-defaults after CLI
	if hasIni {
		mode = v.Choice(3)
	}
	if envState == 2 && kind == 2 {
		v.Assume(false) // an empty text is not a key:value entry
	}
	I, E1, E2, N1, N2, C1, C2 := c05Tok(v), c05EnvTok(v), c05EnvTok(v), c05Tok(v), c05Tok(v), c05Tok(v), c05Tok(v)
	if hasIni && kind != 2 && v.Choice(2) == 1 {
		// an INI entry with an empty value is a value (the empty string) too
		N1 = ""
	}
	o := &c05Decl{}
	var initV []string
	switch kind {
	case 0:
		initV = []string{""}
	case 3:
		initV = []string{"<nil>"}
	}
	if hasInit {
		switch opt {
		case 0:
			o.S = I
		case 1:
			o.Sd = I
		case 2:
			o.L = []string{I, I}
		case 3:
			o.Ld = []string{I, I}
		case 4:
			o.M = map[string]string{"i": I}
		case 5:
			o.Md = map[string]string{"i": I}
		case 6:
			x := I
			o.P = &x
		case 7:
			o.G.N = I
		case 8:
			o.O.In.N2 = I
		case 9:
			o.Add.CS = I
		case 10:
			o.OV = I
		}
		switch kind {
		case 0, 3:
			initV = []string{I}
		case 1:
			initV = []string{I, I}
		case 2:
			initV = []string{"i:" + I}
		}
	}
	var envV, iniV, cliV, defV []string
	var envText, iniText string
	var cliArgs []string
	switch kind {
	case 0, 3:
		envV, iniV, cliV, defV = []string{E1}, []string{N1}, []string{C1}, []string{"D"}
		envText = E1
		iniText = key + " = " + N1 + "\n"
		cliArgs = []string{"--" + key + "=" + C1}
	case 1:
		envV, iniV, cliV, defV = []string{E1, E2}, []string{N1, N2}, []string{C1, C2}, []string{"D1", "D2"}
		envText = E1 + "," + E2
		iniText = key + " = " + N1 + "\n" + key + " = " + N2 + "\n"
		cliArgs = []string{"--" + key + "=" + C1, "--" + key, C2}
	case 2:
		envV, iniV, cliV, defV = []string{"e:" + E1}, []string{"n:" + N1}, []string{"c:" + C1}, []string{"d:1"}
		envText = "e:" + E1
		iniText = key + " = n:" + N1 + "\n"
		cliArgs = []string{"--" + key + "=c:" + C1}
	}
	if kind == 1 && v.Choice(2) == 1 {
		// a trailing delimiter denotes one more, empty, element
		envText += ","
		envV = append(envV, "")
	}
	if opt == 7 {
		iniText = "[g]\nN = " + N1 + "\n"
	}
	if opt == 8 {
		iniText = "[gin]\nN2 = " + N1 + "\n"
	}
	// the command option: no command, its own command or a sibling is selected
	sel := 0
	if opt == 9 {
		iniText = "[add]\nCS = " + N1 + "\n"
		sel = v.Choice(3)
		if hasCli {
			v.Assume(sel == 1)
		}
	}
	if opt == 10 && hasCli && v.Choice(2) == 1 {
		// given without an argument: the optional value is what was denoted
		cliArgs = []string{"--ov"}
		cliV = []string{"OPT"}
	}
	if envState == 2 {
		envText = ""
		envV = []string{""}
	}
	if envState != 0 {
		v.Setenv(c05Env[opt], envText)
	}
	p := NewNamedParser("prog", None)
	p.AddGroup("Application Options", "", o)
	p.SubcommandsOptional = true
	ip := NewIniParser(p)
	ip.ParseAsDefaults = mode != 0
	var err error
	if hasIni && mode != 2 {
		err = ip.Parse(strings.NewReader(iniText))
	}
	var args []string
	if sel == 1 {
		args = append(args, "add")
	} else if sel == 2 {
		args = append(args, "rm")
	}
	if hasCli {
		args = append(args, cliArgs...)
	}
	if err == nil {
		_, err = p.ParseArgs(args)
	}
	if err == nil && hasIni && mode == 2 {
		err = ip.Parse(strings.NewReader(iniText))
	}
	vObsErr(v, err)
	v.Assert(err == nil, "every source carries a convertible value")
	if err != nil {
		return
	}
	v.Reach("parsed")
	// the highest-ranked source that provides a value
	var want []string
	switch {
	case hasCli:
		want = cliV
		v.Reach("cli")
	case hasIni:
		want = iniV
		v.Reach("ini")
	case envState != 0:
		want = envV
		v.Reach("env")
	case c05HasDef[opt]:
		want = defV
		v.Reach("default")
	default:
		want = initV
		v.Reach("initial")
	}
	got := c05Get(o, opt)
	v.ObserveStrs("got", got)
	v.Assert(v.EqStrs(got, want), "the option holds exactly the value(s) of the highest-ranked source (command line > INI > environment > default tags > initial contents); lower-ranked elements never leak in")
}

func init() {
	vHarnesses["H_C05_rank"] = H_C05_rank
}
