//go:build verif

package flags

import "errors"

// C04 - parsing is total, contained and typed.

var c04CbErr = errors.New("callback refused")

type c04Cmd struct {
	V bool `short:"v"`
}

type c04Decl struct {
	F   bool               `short:"f" long:"flag"`
	S   string             `short:"s" long:"str"`
	N   int                `short:"n" long:"num"`
	C   string             `short:"c" long:"cho" choice:"a" choice:"b"`
	O   string             `short:"o" long:"opt" optional:"true" optional-value:"dflt"`
	M   map[string]int     `short:"m" long:"map"`
	E   string             `short:"é" long:"eac"`
	Cb  func(string) error `long:"cb"`
	Pos struct {
		P string
	} `positional-args:"yes"`
	Cmd c04Cmd `command:"cmd"`
}

type c04DeclReq struct {
	F   bool   `short:"f" long:"flag"`
	R   string `short:"r" long:"req" required:"true"`
	Q   int    `short:"q" required:"true"`
	Cmd c04Cmd `command:"cmd"`
}

type c04DeclHiddenCmds struct {
	F  bool   `short:"f" long:"flag"`
	H1 c04Cmd `command:"int" hidden:"true"`
	H2 c04Cmd `command:"dbg" hidden:"true"`
}

type c04DeclBoolChoice struct {
	B bool   `short:"b" long:"bc" choice:"x" choice:"y"`
	S string `short:"s"`
}

type c04Run struct {
	Colour string `long:"colour-mode" optional:"yes" optional-value:"auto" description:"when to use colours"`
}
type c04DeclHelpLayout struct {
	F   bool   `short:"f" long:"flag" description:"a flag"`
	Run c04Run `command:"run"`
}

type c04DeclEnv struct {
	F bool   `short:"f" long:"flag"`
	N int    `long:"num" env:"C04_NUM"`
	C string `long:"cho" env:"C04_CHO" choice:"a" choice:"b"`
	L []int  `long:"lst" env:"C04_LST" env-delim:","`
}

func c04Parser(v *V, variant int, opts Options, cbCalled *bool) *Parser {
	p := NewNamedParser("prog", opts)
	switch variant {
	case 0:
		d := &c04Decl{}
		d.Cb = func(s string) error {
			*cbCalled = true
			if len(s) > 0 && s[0] == 'x' {
				return c04CbErr
			}
			return nil
		}
		p.AddGroup("Application Options", "", d)
	case 1:
		p.AddGroup("Application Options", "", &c04DeclReq{})
	case 2:
		p.AddGroup("Application Options", "", &c04DeclBoolChoice{})
	case 3:
		p.AddGroup("Application Options", "", &c04DeclHiddenCmds{})
	case 4:
		p.AddGroup("Application Options", "", &c04DeclEnv{})
	case 5:
		p.AddGroup("Application Options", "", &c04DeclHelpLayout{})
	}
	return p
}

// H_C04_raw: arbitrary tokens, every parser option set; the parse must return
// normally, errors must be typed, output discipline must hold.
func H_C04_raw(v *V) {
	variant := v.Shape("variant")
	opts := vOptions(v, PassDoubleDash, IgnoreUnknown, PrintErrors, PassAfterNonOption)
	if v.Shape("help") == 1 {
		opts |= HelpFlag
	}
	n := v.Shape("ntok")
	argv := make([]string, n)
	for i := range argv {
		argv[i] = v.String(v.Shape("len" + string(rune('0'+i))))
	}
	cbCalled := false
	p := c04Parser(v, variant, opts, &cbCalled)
	p.SubcommandsOptional = v.Choice(2) == 1
	_, err := p.ParseArgs(argv)
	out, errOut := v.Stdout(), v.Stderr()
	if err == nil {
		v.Reach("success")
		v.Assert(out == "" && errOut == "", "a successful parse writes nothing")
		return
	}
	v.Reach("error")
	vObsErr(v, err)
	fe, typed := err.(*Error)
	if err != c04CbErr {
		v.Assert(typed, "every rejection by the parser is a *flags.Error")
	} else {
		v.Reach("callback-error")
	}
	if opts&PrintErrors == 0 {
		v.Assert(out == "" && errOut == "", "nothing is written unless PrintErrors is set")
	} else {
		text := err.Error() + "\n"
		if typed && fe.Type == ErrHelp {
			v.Reach("help")
			v.Assert(v.EqStr(out, text) && errOut == "", "help is written exactly once, to standard output")
		} else {
			v.Assert(v.EqStr(errOut, text) && out == "", "an error is written exactly once, to standard error")
		}
	}
}

// H_C04_typed: a valid vector plus one fault of a given class at a symbolic
// position; the rejection must carry the documented error type.
func H_C04_typed(v *V) {
	class := v.Shape("class")
	opts := vOptions(v, PassDoubleDash, PrintErrors)
	if class == 11 {
		opts |= HelpFlag
	}
	V := v.String(v.Shape("lv"))
	var fault []string
	want := ErrUnknown
	variant := 0
	subOptional := true
	switch class {
	case 0:
		v.Assume(len(V) > 0 && V[0] != '-' && refIndexByte(V, '=') < 0)
		v.Assume(V != "flag" && V != "str" && V != "num" && V != "cho" && V != "opt" && V != "map" && V != "eac" && V != "cb")
		fault, want = []string{"--" + V}, ErrUnknownFlag
	case 1:
		fault, want = []string{"-z"}, ErrUnknownFlag
	case 2:
		fault, want = []string{"-fz"}, ErrUnknownFlag
	case 3:
		fault, want = []string{"--str"}, ErrExpectedArgument
	case 4:
		v.Assume(refOptionSyntax(V))
		fault, want = []string{"--str", V}, ErrExpectedArgument
	case 5:
		fault, want = []string{"--flag=" + V}, ErrNoArgumentForBool
	case 6:
		// (a double-quoted literal is unquoted first, so "7" is a valid value)
		v.Assume(!refIsDecimal(V) && !(len(V) > 0 && V[0] == '"'))
		fault, want = []string{"--num=" + V}, ErrMarshal
	case 7:
		v.Assume(V != "a" && V != "b" && !(len(V) > 0 && V[0] == '"'))
		fault, want = []string{"--cho=" + V}, ErrInvalidChoice
	case 8:
		variant = 1
		fault, want = nil, ErrRequired
	case 9:
		subOptional = false
		if v.Choice(2) == 1 {
			variant = 3 // every subcommand hidden
		}
		fault, want = nil, ErrCommandRequired
	case 10:
		subOptional = false
		v.Assume(!refOptionSyntax(V) && V != "cmd" && V != "int" && V != "dbg" && !(opts&PassDoubleDash != 0 && V == "--"))
		if v.Choice(2) == 1 {
			variant = 3
			fault, want = []string{V}, ErrUnknownCommand
		} else {
			// the declaration has one positional argument: a first plain word fills it
			fault, want = []string{"w", V}, ErrUnknownCommand
		}
	case 11:
		if v.Choice(2) == 0 {
			fault = []string{"-h"}
		} else {
			fault = []string{"--help"}
		}
		if v.Choice(2) == 1 {
			// help requested while a command is active (the first word fills the positional)
			fault = append([]string{"w", "cmd"}, fault...)
		}
		want = ErrHelp
	case 15: // help requested while a command is active whose widest entry is an option with an optional argument
		variant = 5
		opts |= HelpFlag
		fault = [][]string{{"run", "--help"}, {"run", "-h"}, {"--help"}, {"run", "--colour-mode", "--help"}}[v.Choice(4)]
		want = ErrHelp
	case 16: // a value that starts like a quoted literal but is not one
		fault, want = []string{[]string{"--str=\"", "--str=\"a", "-s\"", "--eac=\"\\"}[v.Choice(4)]}, ErrMarshal
	case 12: // the fault arrives through the environment: not a number
		// (an environment value cannot hold a NUL byte)
		v.Assume(refIndexByte(V, 0) < 0)
		variant = 4
		v.Assume(!refIsDecimal(V))
		v.Setenv("C04_NUM", V)
		fault, want = nil, ErrMarshal
	case 13: // ... a value outside the declared choices
		v.Assume(refIndexByte(V, 0) < 0)
		variant = 4
		v.Assume(V != "a" && V != "b")
		v.Setenv("C04_CHO", V)
		fault, want = nil, ErrInvalidChoice
	case 14: // ... one element of a delimited list does not convert
		v.Assume(refIndexByte(V, 0) < 0)
		variant = 4
		v.Assume(!refIsDecimal(V) && refIndexByte(V, ',') < 0)
		v.Setenv("C04_LST", "1,"+V)
		fault, want = nil, ErrMarshal
	}
	// valid surroundings
	var pre, post []string
	if variant == 0 {
		if v.Choice(2) == 1 {
			pre = []string{"-f", "--str=x"}
		}
		if v.Choice(2) == 1 && class != 3 && class != 10 {
			post = []string{"--num", "7"}
		}
	} else {
		pre = []string{"-f"}
	}
	argv := append(append(append([]string{}, pre...), fault...), post...)
	cb := false
	p := c04Parser(v, variant, opts, &cb)
	p.SubcommandsOptional = subOptional
	_, err := p.ParseArgs(argv)
	vObsErr(v, err)
	v.Assert(err != nil, "the faulty vector is rejected")
	if err == nil {
		return
	}
	v.Reach("rejected")
	t, typed := vErrType(err)
	v.Assert(typed, "the rejection is a *flags.Error")
	v.Assert(t == want, "the rejection carries the documented error type for its cause")
	out, errOut := v.Stdout(), v.Stderr()
	if opts&PrintErrors == 0 {
		v.Assert(out == "" && errOut == "", "nothing is written unless PrintErrors is set")
	} else if t == ErrHelp {
		v.Assert(v.EqStr(out, err.Error()+"\n") && errOut == "", "help is written exactly once, to standard output")
	} else {
		v.Assert(v.EqStr(errOut, err.Error()+"\n") && out == "", "an error is written exactly once, to standard error")
	}
	if class == 0 {
		v.Assert(v.Contains(err.Error(), V), "an unknown-flag error names the flag")
	}
	if class == 7 {
		v.Assert(v.Contains(err.Error(), "a") && v.Contains(err.Error(), "b"), "an invalid-choice error lists the allowed values")
	}
}

func init() {
	vHarnesses["H_C04_raw"] = H_C04_raw
	vHarnesses["H_C04_typed"] = H_C04_typed
}
