//go:build verif

package flags

import (
	"errors"
	"time"
)

// C11 - values are converted exactly or rejected.

type c11Ints struct {
	I8  int8   `long:"i8"`
	U8  uint8  `long:"u8"`
	I16 int16  `long:"i16"`
	U16 uint16 `long:"u16"`
	I32 int32  `long:"i32"`
	U32 uint32 `long:"u32"`
	I64 int64  `long:"i64"`
	U64 uint64 `long:"u64"`
	I   int    `long:"i"`
	U   uint   `long:"u"`
}

var c11Names = []string{"i8", "u8", "i16", "u16", "i32", "u32", "i64", "u64", "i", "u"}
var c11Bits = []int{8, 8, 16, 16, 32, 32, 64, 64, 64, 64}
var c11Signed = []bool{true, false, true, false, true, false, true, false, true, false}

// boundary templates for the wide kinds: the text of a limit with the last
// `free` bytes replaced by symbolic bytes
var c11Templates = [][]string{
	/* i32 */ {"2147483647", "-2147483648", "7fffffff", "-80000000"},
	/* u32 */ {"4294967295", "ffffffff"},
	/* i64 */ {"9223372036854775807", "-9223372036854775808", "7fffffffffffffff"},
	/* u64 */ {"18446744073709551615", "ffffffffffffffff"},
}

// H_C11_int: --kind=V through the real strconv code against refInt.
func H_C11_int(v *V) {
	kind := v.Shape("kind")
	base := v.Shape("base")
	var V string
	if tpl := v.Shape("tpl"); tpl >= 0 {
		// template: concrete prefix, symbolic tail (and the result must keep the template's base)
		t := c11Templates[(kind-4)%4][tpl]
		free := v.Shape("lv")
		if free > len(t) {
			free = len(t)
		}
		V = t[:len(t)-free] + v.String(free)
		// one extra trailing byte (possibly making the number one digit longer)
		if v.Choice(2) == 1 {
			V += v.String(1)
		}
	} else {
		V = v.String(v.Shape("lv"))
	}
	d := &c11Ints{}
	p := NewNamedParser("prog", None)
	p.AddGroup("Application Options", "", d)
	opt := p.FindOptionByLongName(c11Names[kind])
	if base != 10 {
		opt.tag.Set("base", refItoa(base))
	}
	// a value beginning with a double quote is unquoted first (C02); keep to plain text here
	v.Assume(!(len(V) > 0 && V[0] == '"'))
	_, err := p.ParseArgs([]string{"--" + c11Names[kind] + "=" + V})
	neg, mag, ok := refInt(V, base, c11Bits[kind], c11Signed[kind])
	vObsErr(v, err)
	v.Assert((err == nil) == ok, "the text is accepted iff it denotes an integer of the declared base within the type's range")
	if err != nil {
		v.Reach("rejected")
		t, typed := vErrType(err)
		v.Assert(typed && t == ErrMarshal, "a rejected value is reported as ErrMarshal")
		v.Assert(v.Contains(err.Error(), "--"+c11Names[kind]), "the error identifies the option")
		return
	}
	if !ok {
		return
	}
	v.Reach("accepted")
	var got uint64
	switch kind {
	case 0:
		got = uint64(int64(d.I8))
	case 1:
		got = uint64(d.U8)
	case 2:
		got = uint64(int64(d.I16))
	case 3:
		got = uint64(d.U16)
	case 4:
		got = uint64(int64(d.I32))
	case 5:
		got = uint64(d.U32)
	case 6:
		got = uint64(d.I64)
	case 7:
		got = d.U64
	case 8:
		got = uint64(int64(d.I))
	case 9:
		got = uint64(d.U)
	}
	want := mag
	if neg {
		want = -mag
	}
	v.Assert(got == want, "the stored value is exactly the denoted one (never wrapped, truncated or clamped)")
}

type c11U struct{ s string }

var c11UErr = errors.New("refused by unmarshaler")

func (u *c11U) UnmarshalFlag(s string) error {
	if len(s) > 0 && s[0] == '!' {
		return c11UErr
	}
	u.s = "<" + s + ">"
	return nil
}

type c11Other struct {
	M   map[string]int    `long:"m"`
	MS  map[string]string `long:"ms"`
	L   []int             `long:"l"`
	P   *int              `long:"p"`
	PS  *string           `long:"ps"`
	C   string            `long:"c" choice:"a" choice:"bb" choice:"c c"`
	UV  c11U              `long:"uv"`
	UP  *c11U             `long:"up"`
	Pos struct {
		B bool
	} `positional-args:"yes"`
}

// H_C11_other: maps, slices, pointers, choices, unmarshalers, booleans.
func H_C11_other(v *V) {
	kind := v.Shape("kind")
	V := v.String(v.Shape("lv"))
	v.Assume(!(len(V) > 0 && V[0] == '"'))
	d := &c11Other{}
	p := NewNamedParser("prog", None)
	p.AddGroup("Application Options", "", d)
	names := []string{"m", "ms", "l", "p", "ps", "c", "uv", "up", ""}
	var argv []string
	if kind == 8 {
		// the empty text is how a flag occurrence without argument is encoded
		// (it reads as true); it is not judged as a boolean spelling
		v.Assume(!refOptionSyntax(V) && V != "")
		argv = []string{V}
	} else {
		argv = []string{"--" + names[kind] + "=" + V}
	}
	if kind == 2 {
		argv = append([]string{"--l=7"}, argv...)
	}
	_, err := p.ParseArgs(argv)
	vObsErr(v, err)
	t, typed := vErrType(err)
	reject := func(ok bool, msg string) bool {
		v.Assert((err == nil) == ok, msg)
		if err != nil && !ok {
			v.Reach("rejected")
		}
		return err == nil && ok
	}
	switch kind {
	case 0: // map[string]int: key:value split at the first ':'
		k := refMapKey(V)
		val := ""
		if len(k) < len(V) {
			val = V[len(k)+1:]
		}
		_, mag, ok := refInt(val, 10, 64, true)
		neg, _, _ := refInt(val, 10, 64, true)
		if reject(ok, "a map entry is accepted iff the text after the first ':' denotes the value type") {
			v.Reach("accepted")
			x, present := d.M[k]
			want := int(mag)
			if neg {
				want = -want
			}
			v.Assert(present && len(d.M) == 1 && x == want, "the map holds exactly key -> value")
		} else if err != nil {
			v.Assert(typed && t == ErrMarshal, "a rejected map value is ErrMarshal")
		}
	case 1:
		k := refMapKey(V)
		val := ""
		if len(k) < len(V) {
			val = V[len(k)+1:]
		}
		if reject(true, "any key:value text is a valid string map entry") {
			v.Reach("accepted")
			x, present := d.MS[k]
			v.Assert(present && len(d.MS) == 1 && v.EqStr(x, val), "the map holds exactly key -> value, split at the first ':'")
		}
	case 2:
		neg, mag, ok := refInt(V, 10, 64, true)
		if reject(ok, "a slice element is accepted iff it denotes the element type") {
			v.Reach("accepted")
			want := int(mag)
			if neg {
				want = -want
			}
			v.Assert(len(d.L) == 2 && d.L[0] == 7 && d.L[1] == want, "the slice gains exactly the denoted element")
		} else if err != nil {
			v.Assert(typed && t == ErrMarshal, "a rejected slice element is ErrMarshal")
		}
	case 3:
		neg, mag, ok := refInt(V, 10, 64, true)
		if reject(ok, "a pointer option is accepted iff the text denotes the pointed-to type") {
			v.Reach("accepted")
			want := int(mag)
			if neg {
				want = -want
			}
			v.Assert(d.P != nil && *d.P == want, "the pointer is allocated and holds the denoted value")
		}
	case 4:
		if reject(true, "any text is a valid string") {
			v.Reach("accepted")
			v.Assert(d.PS != nil && v.EqStr(*d.PS, V), "the pointer is allocated and holds the text")
		}
	case 5:
		ok := V == "a" || V == "bb" || V == "c c"
		if reject(ok, "with choices declared a value is accepted iff it is one of them") {
			v.Reach("accepted")
			v.Assert(v.EqStr(d.C, V), "the chosen value is stored")
		} else if err != nil {
			v.Assert(typed && t == ErrInvalidChoice, "a value outside the choices is ErrInvalidChoice")
			m := err.Error()
			v.Assert(v.Contains(m, "a") && v.Contains(m, "bb") && v.Contains(m, "c c"), "the error lists every allowed value")
			v.Assert(v.Contains(m, "--c"), "the error identifies the option")
		}
	case 6, 7:
		ok := !(len(V) > 0 && V[0] == '!')
		if reject(ok, "a custom unmarshaler decides acceptance") {
			v.Reach("accepted")
			if kind == 6 {
				v.Assert(v.EqStr(d.UV.s, "<"+V+">"), "the unmarshaler (value field) received the text")
			} else {
				v.Assert(d.UP != nil && v.EqStr(d.UP.s, "<"+V+">"), "the unmarshaler (nil pointer field) was allocated and received the text")
			}
		} else if err != nil {
			v.Assert(typed && t == ErrMarshal, "an unmarshaler's refusal is ErrMarshal")
		}
	case 8:
		val, ok := refBool(V)
		if reject(ok, "a boolean is accepted iff the text is one of the documented spellings") {
			v.Reach("accepted")
			v.Assert(d.Pos.B == val, "the boolean holds the denoted value")
		}
	}
}

type c11Floats struct {
	F32 float32   `long:"f32"`
	F64 float64   `long:"f64"`
	P32 *float32  `long:"p32"`
	S32 []float32 `long:"s32"`
}

// boundary texts for floating point kinds: text, accepted as float32, accepted as float64
var c11FloatSamples = []struct {
	text string
	ok32 bool
	ok64 bool
}{
	{"0", true, true},
	{"-1.5", true, true},
	{"3.4028234e38", true, true},          // just below MaxFloat32
	{"3.4028235677973366e38", true, true}, // just below the rounding midpoint: MaxFloat32
	{"3.4028236e38", false, true},         // above the midpoint: not a finite float32
	{"1e39", false, true},
	{"-3.5e38", false, true},
	{"1e-46", true, true}, // underflows to 0 as float32 (accepted by strconv)
	{"1.7976931348623157e308", false, true},
	{"1e309", false, false},
	{"0x1p-2", true, true},
	{"1e", false, false},
	{" 1", false, false},
	{"", false, false},
}

// H_C11_float: boundary texts for the floating point kinds (concrete samples:
// symbolic text cannot be pushed through ParseFloat).
func H_C11_float(v *V) {
	smp := c11FloatSamples[v.Choice(len(c11FloatSamples))]
	kind := v.Choice(4)
	d := &c11Floats{}
	p := NewNamedParser("prog", None)
	p.AddGroup("Application Options", "", d)
	name := []string{"f32", "f64", "p32", "s32"}[kind]
	_, err := p.ParseArgs([]string{"--" + name + "=" + smp.text})
	want := smp.ok32
	if kind == 1 {
		want = smp.ok64
	}
	vObsErr(v, err)
	v.Reach("float")
	v.Assert((err == nil) == want, "a float text is accepted iff it denotes a finite value of the field's precision")
	if err != nil {
		t, typed := vErrType(err)
		v.Assert(typed && t == ErrMarshal, "a rejected float is ErrMarshal")
		return
	}
	inf32 := func(x float32) bool { return x > 3.4028234663852886e38 || x < -3.4028234663852886e38 }
	switch kind {
	case 0:
		v.Assert(!inf32(d.F32), "the stored float32 is finite (never clamped to infinity)")
	case 2:
		v.Assert(d.P32 != nil && !inf32(*d.P32), "the stored *float32 is finite")
	case 3:
		v.Assert(len(d.S32) == 1 && !inf32(d.S32[0]), "the stored []float32 element is finite")
	}
}

// H_C11_floatsyn: acceptance of short symbolic float texts (the scanner
// functions of strconv are interpreted symbolically; values are not tracked).
func H_C11_floatsyn(v *V) {
	V := v.String(v.Shape("lv"))
	v.Assume(!(len(V) > 0 && V[0] == '"'))
	ok, outside := refFloatSyntax(V)
	v.Assume(!outside)
	d := &c11Floats{}
	p := NewNamedParser("prog", None)
	p.AddGroup("Application Options", "", d)
	name := []string{"f32", "f64"}[v.Choice(2)]
	_, err := p.ParseArgs([]string{"--" + name + "=" + V})
	vObsErr(v, err)
	if err == nil {
		v.Reach("accepted")
	} else {
		v.Reach("rejected")
	}
	v.Assert((err == nil) == ok, "a short text is accepted as a float iff it has floating point syntax")
	if err != nil {
		t, typed := vErrType(err)
		v.Assert(typed && t == ErrMarshal, "a rejected float is ErrMarshal")
	}
}

func init() {
	vHarnesses["H_C11_floatsyn"] = H_C11_floatsyn
	vHarnesses["H_C11_float"] = H_C11_float
	vHarnesses["H_C11_int"] = H_C11_int
	vHarnesses["H_C11_other"] = H_C11_other
}

type c11Durs struct {
	D  time.Duration   `long:"d"`
	DS []time.Duration `long:"ds"`
	DP *time.Duration  `long:"dp"`
}

// H_C11_duration: --d=V through the real time.ParseDuration against the
// documented grammar (refDuration).
func H_C11_duration(v *V) {
	V := v.String(v.Shape("lv"))
	v.Assume(!(len(V) > 0 && V[0] == '"'))
	kind := v.Choice(3)
	d := &c11Durs{}
	p := NewNamedParser("prog", None)
	p.AddGroup("Application Options", "", d)
	_, err := p.ParseArgs([]string{"--" + []string{"d", "ds", "dp"}[kind] + "=" + V})
	vObsErr(v, err)
	want, ok := refDuration(V)
	v.Assert((err == nil) == ok, "a duration is accepted iff it follows the documented grammar (signed sequence of decimal numbers with unit)")
	if err != nil {
		t, typed := vErrType(err)
		v.Assert(typed && t == ErrMarshal, "a rejected duration is ErrMarshal")
		v.Reach("rejected")
		return
	}
	if !ok {
		return
	}
	v.Reach("accepted")
	v.ObserveInt("ns", int(want))
	switch kind {
	case 0:
		v.Assert(int64(d.D) == want, "the stored duration is exactly the denoted one")
	case 1:
		v.Assert(len(d.DS) == 1 && int64(d.DS[0]) == want, "the slice gains exactly the denoted duration")
	case 2:
		v.Assert(d.DP != nil && int64(*d.DP) == want, "the pointer is allocated and holds the denoted duration")
	}
}

func init() { vHarnesses["H_C11_duration"] = H_C11_duration }
