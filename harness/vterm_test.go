//go:build verif

package flags

// vterm_test.go: native replay support for v.TermWidth - standard input is
// attached to a pseudo-terminal of the requested width, so that the real
// TIOCGWINSZ ioctl in getTerminalColumns() reports it.

import (
	"fmt"
	"os"

	"golang.org/x/sys/unix"
)

func init() {
	vSetTermWidthHook = func(v *V, w int) {
		master, err := os.OpenFile("/dev/ptmx", os.O_RDWR, 0)
		if err != nil {
			panic(vAssumeFailed{"no pty available: " + err.Error()})
		}
		if err := unix.IoctlSetPointerInt(int(master.Fd()), unix.TIOCSPTLCK, 0); err != nil {
			panic(vAssumeFailed{"unlockpt: " + err.Error()})
		}
		n, err := unix.IoctlGetInt(int(master.Fd()), unix.TIOCGPTN)
		if err != nil {
			panic(vAssumeFailed{"ptsname: " + err.Error()})
		}
		slave, err := os.OpenFile(fmt.Sprintf("/dev/pts/%d", n), os.O_RDWR|unix.O_NOCTTY, 0)
		if err != nil {
			panic(vAssumeFailed{"open pts: " + err.Error()})
		}
		if err := unix.IoctlSetWinsize(int(slave.Fd()), unix.TIOCSWINSZ, &unix.Winsize{Row: 24, Col: uint16(w)}); err != nil {
			panic(vAssumeFailed{"set winsize: " + err.Error()})
		}
		saved, err := unix.Dup(0)
		if err != nil {
			saved = -1
		}
		unix.Dup2(int(slave.Fd()), 0)
		v.restore = append(v.restore, func() {
			if saved >= 0 {
				unix.Dup2(saved, 0)
				unix.Close(saved)
			} else {
				unix.Close(0)
			}
			slave.Close()
			master.Close()
		})
	}
}
