//go:build verif

package flags

import "strconv"

// C19 - declarations are read faithfully or rejected at setup.

func c19Sep(v *V) string { return []string{" ", "", "  "}[v.Choice(3)] }

// H_C19_wellformed: a tag rendered from a list of (key, value) pairs must be
// reflected exactly in the public model.
func H_C19_wellformed(v *V) {
	lv := v.Shape("lv")
	// two attributes carry symbolic text per run (attr selects which); the
	// others carry concrete markers
	D, X1, X2, C1, VN, EK, L := "DD", "X1", "X 2", "CC", "VN", "EK", "nm"
	switch v.Shape("attr") {
	case 0:
		D, X1 = v.String(lv), v.String(lv)
	case 1:
		X2, C1 = v.String(lv), v.String(lv)
	case 2:
		VN, EK = v.String(lv), v.String(lv)
	case 3:
		L = v.String(lv)
		v.Assume(len(L) > 0)
	}
	nDefaults := v.Choice(3)
	withChoice := v.Choice(2) == 1
	tag := "long:" + refQuote(L) + c19Sep(v) + "description:" + refQuote(D)
	var wantDef []string
	if nDefaults >= 1 {
		tag += c19Sep(v) + "default:" + refQuote(X1)
		wantDef = append(wantDef, X1)
	}
	if nDefaults >= 2 {
		tag += " default:" + refQuote(X2)
		wantDef = append(wantDef, X2)
	}
	var wantCh []string
	if withChoice {
		tag += " choice:" + refQuote(C1)
		wantCh = []string{C1}
	}
	tag += " value-name:" + refQuote(VN) + " env:" + refQuote(EK) + c19Sep(v) + `required:"true" hidden:"true"`
	if v.Shape("attr") == 4 {
		// the symbolic attribute closes the tag
		D = v.String(lv)
		tag = `long:"nm" required:"true" hidden:"true" value-name:"VN" env:"EK"` + c19Sep(v) + "description:" + refQuote(D)
		wantDef, wantCh = nil, nil
	}
	data := vTagged(v, "s", []string{tag})
	p := NewNamedParser("prog", None)
	_, err := p.AddGroup("G", "", data)
	vObsErr(v, err)
	v.Assert(err == nil, "a legal tag string is accepted")
	if err != nil {
		return
	}
	v.Reach("accepted")
	opts := p.Groups()[0].Options()
	v.Assert(len(opts) == 1, "the field becomes exactly one option")
	if len(opts) != 1 {
		return
	}
	o := opts[0]
	v.Assert(v.EqStr(o.LongName, L), "long name read faithfully")
	v.Assert(v.EqStr(o.Description, D), "description read faithfully (escapes, non-ASCII, blanks)")
	v.Assert(v.EqStrs(o.Default, wantDef), "defaults read faithfully and in order")
	v.Assert(v.EqStrs(o.Choices, wantCh), "choices read faithfully")
	v.Assert(v.EqStr(o.ValueName, VN) && v.EqStr(o.EnvDefaultKey, EK), "value name and env key read faithfully")
	v.Assert(o.Required && o.Hidden && !o.OptionalArgument, "marks read faithfully")
}

// H_C19_structure: group, command and positional attributes.
func H_C19_structure(v *V) {
	lv := v.Shape("lv")
	N1, N2, N3 := v.String(lv), v.String(lv), v.String(lv)
	switch v.Choice(4) {
	case 3:
		// derived names: each group carries a namespace, an env-namespace,
		// both or neither; the option's namespaced long name and env key are
		// built from exactly the attributes that are present
		bits := v.Choice(4)
		gtag := func(title string, b int) (tag, ns, ens string) {
			tag = "group:" + refQuote(title)
			if b&1 != 0 {
				ns = N1
				tag += " namespace:" + refQuote(N1)
			}
			if b&2 != 0 {
				ens = N2
				tag += " env-namespace:" + refQuote(N2)
			}
			return
		}
		t1, ns1, ens1 := gtag("One", bits)
		t2, ns2, ens2 := gtag("Two", 3-bits)
		data := vTagged(v, "gg", []string{t1, `long:"x" env:"EX"`, t2, `long:"y" env:"EY"`})
		p := NewNamedParser("prog", None)
		_, err := p.AddGroup("Outer", "", data)
		v.Assert(err == nil, "legal group tags are accepted")
		if err != nil {
			return
		}
		v.Reach("derived")
		join := func(pre, d, name string) string {
			if pre == "" {
				return name
			}
			return pre + d + name
		}
		ox, oy := p.FindOptionByLongName(join(ns1, ".", "x")), p.FindOptionByLongName(join(ns2, ".", "y"))
		v.Assert(ox != nil && oy != nil, "each option is found under its namespaced long name")
		if ox != nil && oy != nil {
			v.Assert(v.EqStr(ox.LongNameWithNamespace(), join(ns1, ".", "x")) && v.EqStr(oy.LongNameWithNamespace(), join(ns2, ".", "y")), "the namespaced long name is built from the groups' namespaces only")
			v.Assert(v.EqStr(ox.EnvKeyWithNamespace(), join(ens1, "_", "EX")) && v.EqStr(oy.EnvKeyWithNamespace(), join(ens2, "_", "EY")), "the namespaced env key is built from the groups' env-namespaces only")
		}
	case 0:
		v.Assume(len(N1) > 0)
		data := vTagged(v, "g", []string{"group:" + refQuote(N1) + " namespace:" + refQuote(N2) + " env-namespace:" + refQuote(N3)})
		p := NewNamedParser("prog", None)
		g, err := p.AddGroup("Outer", "", data)
		v.Assert(err == nil, "a legal group tag is accepted")
		if err != nil {
			return
		}
		v.Reach("group")
		v.Assert(len(g.Groups()) == 1, "the field becomes a sub-group")
		if len(g.Groups()) == 1 {
			sg := g.Groups()[0]
			v.Assert(v.EqStr(sg.ShortDescription, N1) && v.EqStr(sg.Namespace, N2) && v.EqStr(sg.EnvNamespace, N3), "group name, namespace and env-namespace read faithfully")
		}
	case 1:
		v.Assume(len(N1) > 0)
		data := vTagged(v, "c", []string{"command:" + refQuote(N1) + " alias:" + refQuote(N2) + " alias:" + refQuote(N3) + ` subcommands-optional:"y"`})
		p := NewNamedParser("prog", None)
		_, err := p.AddGroup("Outer", "", data)
		v.Assert(err == nil, "a legal command tag is accepted")
		if err != nil {
			return
		}
		v.Reach("command")
		v.Assert(len(p.Commands()) == 1, "the field becomes a command")
		if len(p.Commands()) == 1 {
			c := p.Commands()[0]
			v.Assert(v.EqStr(c.Name, N1) && v.EqStrs(c.Aliases, []string{N2, N3}) && c.SubcommandsOptional, "command name, aliases in order and marks read faithfully")
		}
	case 2:
		data := vTagged(v, "p", []string{`positional-args:"yes"`, "positional-arg-name:" + refQuote(N1) + " description:" + refQuote(N2) + ` required:"yes"`})
		p := NewNamedParser("prog", None)
		_, err := p.AddGroup("Outer", "", data)
		v.Assert(err == nil, "a legal positional tag is accepted")
		if err != nil {
			return
		}
		v.Reach("positional")
		v.Assert(len(p.Args()) == 1, "the field becomes a positional argument")
		if len(p.Args()) == 1 {
			a := p.Args()[0]
			wantName := N1
			if len(N1) == 0 {
				wantName = "A"
			}
			v.Assert(v.EqStr(a.Name, wantName) && v.EqStr(a.Description, N2) && a.Required == 1, "positional name, description and count read faithfully")
		}
	}
}

// H_C19_malformed: a well-formed tag with one byte replaced by an arbitrary
// byte, or truncated at an arbitrary position.
func H_C19_malformed(v *V) {
	base := `long:"ab" description:"c\"d" default:"e f"`
	pos := v.Shape("pos")
	var tag string
	if v.Choice(2) == 0 {
		if pos >= len(base) {
			v.Assume(false)
		}
		tag = base[:pos] + v.String(1) + base[pos+1:]
	} else {
		tag = base[:pos]
	}
	data := vTagged(v, "s", []string{tag})
	p := NewNamedParser("prog", None)
	_, err := p.AddGroup("G", "", data)
	vObsErr(v, err)
	ref, strictOK := refScanTag(tag, strconv.Unquote)
	if err != nil {
		v.Reach("rejected")
		t, typed := vErrType(err)
		v.Assert(typed && (t == ErrTag || t == ErrShortNameTooLong || t == ErrInvalidTag), "a malformed tag is reported as the typed tag error")
		v.Assert(!strictOK || t != ErrTag, "a tag that is well-formed by the Go convention is not rejected as malformed")
		return
	}
	v.Reach("accepted")
	if !strictOK {
		v.Reach("lenient")
		return
	}
	// same reading as the strict convention
	opts := p.Groups()[0].Options()
	isOpt := ref.get("long") != "" || ref.get("short") != "" || ref.get("ini-name") != ""
	if ref.get("no-flag") != "" {
		isOpt = false
	}
	v.Assert((len(opts) == 1) == isOpt, "the field is an option iff it carries a long, short or ini-name attribute")
	if len(opts) == 1 && isOpt {
		o := opts[0]
		v.Assert(v.EqStr(o.LongName, ref.get("long")) && v.EqStr(o.Description, ref.get("description")) && v.EqStrs(o.Default, ref.getMany("default")), "an accepted tag is read as the Go convention reads it")
	}
}

// H_C19_unit: the tag scanner on arbitrary bytes.
func H_C19_unit(v *V) {
	tag := v.String(v.Shape("n"))
	mt := newMultiTag(tag)
	err := mt.Parse()
	ref, strictOK := refScanTag(tag, strconv.Unquote)
	if err != nil {
		v.Reach("rejected")
		t, typed := vErrType(err)
		v.Assert(typed && t == ErrTag, "the scanner reports ErrTag")
		v.Assert(!strictOK, "the scanner accepts every tag the Go convention accepts")
		return
	}
	v.Reach("accepted")
	if strictOK {
		for i, k := range ref.keys {
			v.Assert(v.EqStr(mt.Get(k), ref.get(k)), "Get returns the last value of a key")
			v.Assert(v.EqStrs(mt.GetMany(k), ref.getMany(k)), "GetMany returns all values of a key in order")
			_ = i
		}
	}
}

// H_C19_typed: declarations that must be rejected with their typed error.
func H_C19_typed(v *V) {
	class := v.Shape("class")
	viaParse := v.Choice(2) == 1
	var data interface{}
	want := ErrUnknown
	wantOK := false
	c19R1, c19R2 := "", ""
	switch class {
	case 0: // short name longer than one character
		S := v.String(v.Shape("lv"))
		rs := []rune(S)
		v.Assume(len(rs) >= 2)
		data = vTagged(v, "s", []string{"short:" + refQuote(S)})
		want = ErrShortNameTooLong
	case 1: // default on a boolean flag (bool, slice of bool, argument-less callback)
		data = vTagged(v, []string{"b", "bs", "fn"}[v.Choice(3)], []string{`long:"bb" default:` + refQuote(v.String(1))})
		want = ErrInvalidTag
	case 2: // two options sharing a short name
		R := v.String(v.Shape("lv"))
		// (the NUL character is the model's "no short name")
		v.Assume(refOneRune(R) && R != "\x00")
		data = vTagged(v, "ss", []string{"short:" + refQuote(R) + ` long:"one"`, "short:" + refQuote(R) + ` long:"two"`})
		want = ErrDuplicatedFlag
	case 3: // two options sharing a long name
		L := v.String(v.Shape("lv"))
		v.Assume(len(L) > 0)
		data = vTagged(v, "ss", []string{"long:" + refQuote(L), `short:"x" long:` + refQuote(L)})
		want = ErrDuplicatedFlag
	case 4: // collision created by namespaces: ns "a" + long "b.c"  vs  ns "a.b" + long "c"
		data = vTagged(v, "gg", []string{`group:"One" namespace:"a"`, `long:"b.c"`, `group:"Two" namespace:"a.b"`, `long:"c"`})
		want = ErrDuplicatedFlag
	case 5: // legal: a long name that spells another option's (or its own) short name
		R := v.String(v.Shape("lv"))
		v.Assume(refOneRune(R) && R != "\x00" && R != "x")
		if v.Choice(2) == 1 {
			data = vTagged(v, "ss", []string{"long:" + refQuote(R), "short:" + refQuote(R) + ` long:"two"`})
		} else {
			data = vTagged(v, "ss", []string{"short:" + refQuote(R) + " long:" + refQuote(R), `short:"x" long:"two"`})
		}
		wantOK = true
	case 6: // legal: two options with different short and long names
		R1, R2 := v.String(v.Shape("lv")), v.String(1)
		c19R1, c19R2 = R1, R2
		v.Assume(refOneRune(R1) && R1 != "\x00" && refOneRune(R2) && R2 != "\x00" && R1 != R2)
		data = vTagged(v, "ss", []string{"short:" + refQuote(R1) + " long:" + refQuote("l"+R1), "short:" + refQuote(R2) + " long:" + refQuote("l"+R2)})
		wantOK = true
	}
	if class == 7 {
		// the truth value of a mark: everything but the empty string, false, no and 0 switches it on
		M := v.String(v.Shape("lv"))
		data := vTagged(v, "s", []string{`long:"m" required:` + refQuote(M) + " hidden:" + refQuote(M) + " optional:" + refQuote(M)})
		p := NewNamedParser("prog", None)
		_, err := p.AddGroup("G", "", data)
		v.Reach("checked")
		v.Assert(err == nil, "a legal tag string is accepted")
		if err == nil {
			o := p.FindOptionByLongName("m")
			on := !(M == "" || M == "false" || M == "no" || M == "0")
			v.Assert(o != nil && o.Required == on && o.Hidden == on && o.OptionalArgument == on, "required / hidden / optional marks are on for every value but the empty string, false, no and 0")
		}
		return
	}
	var err error
	p := NewNamedParser("prog", None)
	if viaParse {
		_, err = p.AddGroup("G", "", data)
	} else {
		g, e := p.AddGroup("Outer", "", &struct{}{})
		if e != nil {
			v.Assume(false)
		}
		_, err = g.AddGroup("Inner", "", data)
	}
	vObsErr(v, err)
	v.Reach("checked")
	if wantOK {
		v.Assert(err == nil, "a legal declaration (distinct short names, distinct long names) is accepted")
		if err == nil && class == 6 {
			g := p.Groups()[len(p.Groups())-1]
			for len(g.Groups()) > 0 {
				g = g.Groups()[0]
			}
			opts := g.Options()
			v.Assert(len(opts) == 2, "both fields become options")
			if len(opts) == 2 {
				v.Assert(v.EqStr(string(opts[0].ShortName), c19R1) && v.EqStr(string(opts[1].ShortName), c19R2), "one-character short names of any script are read faithfully")
			}
		}
		return
	}
	t, typed := vErrType(err)
	v.Assert(err != nil && typed && t == want, "the declaration is rejected with the corresponding typed error")
}

// refRequired: the documented readings of a positional `required` value:
// empty = not required (-1, -1); "N" = at least N; "N-M" = between N and M;
// a part that is not a number leaves the default (1 for the minimum, no
// maximum).
func refRequired(r string) (min, max int) {
	if r == "" {
		return -1, -1
	}
	min, max = 1, -1
	num := func(s string) (int, bool) {
		if len(s) == 0 || len(s) > 9 {
			return 0, false
		}
		n := 0
		for i := 0; i < len(s); i++ {
			if s[i] < '0' || s[i] > '9' {
				return 0, false
			}
			n = n*10 + int(s[i]-'0')
		}
		return n, true
	}
	if k := refIndexByte(r, '-'); k >= 0 {
		if n, ok := num(r[:k]); ok {
			min = n
		}
		if n, ok := num(r[k+1:]); ok {
			max = n
		}
		return
	}
	if n, ok := num(r); ok {
		min = n
	}
	return
}

// H_C19_required: the count attribute of a positional argument.
func H_C19_required(v *V) {
	R := v.String(v.Shape("lv"))
	dashes := 0
	for i := 0; i < len(R); i++ {
		v.Assume((R[i] >= '0' && R[i] <= '9') || R[i] == '-' || R[i] == 'y')
		if R[i] == '-' {
			dashes++
		}
	}
	v.Assume(dashes <= 1) // "N" and "N-M" are the documented forms
	data := vTagged(v, "p", []string{`positional-args:"yes"`, "required:" + refQuote(R)})
	p := NewNamedParser("prog", None)
	_, err := p.AddGroup("Outer", "", data)
	v.Assert(err == nil && len(p.Args()) == 1, "a legal positional tag is accepted")
	if err != nil || len(p.Args()) != 1 {
		return
	}
	v.Reach("read")
	a := p.Args()[0]
	wmin, wmax := refRequired(R)
	v.ObserveInt("min", a.Required)
	v.Assert(a.Required == wmin && a.RequiredMaximum == wmax, "positional counts (N, N-M) are read faithfully")
}

func init() {
	vHarnesses["H_C19_required"] = H_C19_required
	vHarnesses["H_C19_wellformed"] = H_C19_wellformed
	vHarnesses["H_C19_structure"] = H_C19_structure
	vHarnesses["H_C19_malformed"] = H_C19_malformed
	vHarnesses["H_C19_unit"] = H_C19_unit
	vHarnesses["H_C19_typed"] = H_C19_typed
}
