//go:build verif

package flags

import "errors"

// C09 - commands run exactly once and only after a fully successful parse.

var c09Sentinel = errors.New("command failed")

type c09Log struct {
	ids  []string
	args [][]string
	fail bool
}

type c09Root struct {
	G bool `short:"g"`
}
type c09Add struct {
	Y   bool `short:"y" required:"true"`
	N   int  `short:"n"`
	log *c09Log
}
type c09Sub struct {
	Z   bool `short:"z"`
	log *c09Log
}
type c09Rm struct {
	R   string `short:"r" choice:"a" choice:"b"`
	log *c09Log
}

func (c *c09Add) Execute(a []string) error { return c.log.run("add", a) }
func (c *c09Sub) Execute(a []string) error { return c.log.run("sub", a) }
func (c *c09Rm) Execute(a []string) error  { return c.log.run("rm", a) }

func (l *c09Log) run(id string, a []string) error {
	l.ids = append(l.ids, id)
	l.args = append(l.args, append([]string{}, a...))
	if l.fail {
		return c09Sentinel
	}
	return nil
}

// H_C09_exec: a valid vector with an optional single fault; the command (or
// the CommandHandler) runs exactly once iff the parse is clean.
func H_C09_exec(v *V) {
	// the fault class is chosen first; configuration bits that cannot matter
	// for a class are fixed instead of multiplied
	fault := v.Choice(11)
	log := &c09Log{}
	if fault == 0 {
		log.fail = v.Choice(2) == 1
	}
	root := &c09Root{}
	add := &c09Add{log: log}
	sub := &c09Sub{log: log}
	rm := &c09Rm{log: log}
	opts := Options(0)
	if fault == 5 || (fault == 0 && v.Choice(2) == 1) {
		opts |= HelpFlag
	}
	p := NewNamedParser("prog", opts)
	p.AddGroup("Application Options", "", root)
	ca, _ := p.AddCommand("add", "", "", add)
	ca.SubcommandsOptional = true
	ca.AddCommand("sub", "", "", sub)
	p.AddCommand("rm", "", "", rm)
	handlerCalls := 0
	var handlerCmd Commander
	var handlerArgs []string
	useHandler := v.Choice(2) == 1
	if useHandler {
		p.CommandHandler = func(c Commander, args []string) error {
			handlerCalls++
			handlerCmd = c
			handlerArgs = append([]string{}, args...)
			if c == nil {
				return nil
			}
			return c.Execute(args)
		}
	}
	// valid vectors
	path := v.Choice(4) // 0: add, 1: add sub, 2: rm, 3: rm without remaining arguments
	var argv []string
	var wantID string
	switch path {
	case 0:
		argv = []string{"-g", "add", "-y", "-n", "5", "w1"}
		wantID = "add"
	case 1:
		argv = []string{"add", "-y", "sub", "-z", "w1", "w2"}
		wantID = "sub"
	case 2:
		argv = []string{"rm", "-r", "a", "w1"}
		wantID = "rm"
	case 3:
		argv = []string{"rm", "-r", "b"}
		wantID = "rm"
	}
	// optional single fault at a symbolic position
	F := v.String(v.Shape("lf"))
	pos := 0
	if fault == 1 || fault == 5 || fault == 10 {
		pos = v.Choice(len(argv) + 1)
	}
	ins := func(toks ...string) {
		n := append(append(append([]string{}, argv[:pos]...), toks...), argv[pos:]...)
		argv = n
	}
	faulty := true
	switch fault {
	case 0:
		faulty = false
	case 1: // unknown option (symbolic name)
		v.Assume(len(F) > 0 && F[0] != '-' && refIndexByte(F, '=') < 0 && F != "help")
		ins("--" + F)
	case 2: // bad value
		if path != 0 {
			v.Assume(false)
		}
		// (a double-quoted literal is unquoted first, so "7" is a valid value)
		v.Assume(!refIsDecimal(F) && !refOptionSyntax(F) && F[0] != '"')
		argv = []string{"-g", "add", "-y", "-n", F, "w1"}
	case 3: // missing required option
		if path >= 2 {
			v.Assume(false)
		}
		var n []string
		for _, t := range argv {
			if t != "-y" {
				n = append(n, t)
			}
		}
		argv = n
	case 4: // value outside choices
		if path < 2 {
			v.Assume(false)
		}
		v.Assume(F != "a" && F != "b" && !refOptionSyntax(F) && !(len(F) > 0 && F[0] == '"'))
		argv = []string{"rm", "-r", F, "w1"}
	case 5: // help request
		if opts&HelpFlag == 0 {
			v.Assume(false)
		}
		ins("--help")
	case 6: // missing command
		argv = []string{"-g"}
	case 7: // unknown command
		v.Assume(!refOptionSyntax(F) && F != "add" && F != "rm")
		argv = []string{"-g", F}
	case 10: // unknown short option (any character that is not a short name in scope)
		v.Assume(refOneRune(F) && F != "-" && F != "=" && F != "g" && F != "y" && F != "n" && F != "z" && F != "r" && F != "h")
		ins("-" + F)
	case 8: // required subcommand missing; the only subcommand is hidden
		ca.SubcommandsOptional = false
		ca.Find("sub").Hidden = true
		argv = []string{"add", "-y"}
	case 9: // unknown subcommand; the only subcommand is hidden
		ca.SubcommandsOptional = false
		ca.Find("sub").Hidden = true
		v.Assume(!refOptionSyntax(F) && F != "sub")
		argv = []string{"add", "-y", F}
	}
	// a token inserted after `-n`/`-r` would become that option's argument
	if fault == 1 || fault == 5 || fault == 10 {
		if pos > 0 && (argv[pos-1] == "-n" || argv[pos-1] == "-r") {
			v.Assume(false)
		}
	}
	rest, err := p.ParseArgs(argv)
	vObsErr(v, err)
	v.ObserveInt("runs", len(log.ids))
	if faulty {
		v.Reach("faulty")
		v.Assert(err != nil && err != c09Sentinel, "a faulty vector is rejected by the parser")
		v.Assert(len(log.ids) == 0 && handlerCalls == 0, "nothing is executed when parsing detects an error")
		return
	}
	v.Reach("clean")
	v.Assert(len(log.ids) == 1, "exactly one command invocation after a clean parse")
	if len(log.ids) != 1 {
		return
	}
	v.Assert(log.ids[0] == wantID, "the innermost active command is the one executed")
	if useHandler {
		v.Assert(handlerCalls == 1, "the CommandHandler is called exactly once")
		v.Assert(handlerCmd != nil, "the handler receives the command")
	}
	if log.fail {
		v.Assert(err == c09Sentinel, "the command's error is returned unchanged")
	} else {
		v.Assert(err == nil, "a clean parse with a succeeding command returns no error")
		v.Assert(v.EqStrs(log.args[0], rest), "the command receives precisely the remaining arguments the parser returns")
		if useHandler {
			v.Assert(v.EqStrs(handlerArgs, rest), "the handler receives precisely the remaining arguments")
		}
	}
	want := []string{"w1"}
	if path == 1 {
		want = []string{"w1", "w2"}
	}
	if path == 3 {
		want = []string{}
	}
	v.Assert(v.EqStrs(log.args[0], want), "the command's arguments are the unconsumed tokens")
}

// H_C09_completion: in completion mode nothing is executed.
func H_C09_completion(v *V) {
	log := &c09Log{}
	add := &c09Add{log: log}
	p := NewNamedParser("prog", None)
	p.AddGroup("Application Options", "", &c09Root{})
	p.AddCommand("add", "", "", add)
	handlerCalls := 0
	p.CommandHandler = func(c Commander, args []string) error { handlerCalls++; return nil }
	items := -1
	p.CompletionHandler = func(it []Completion) { items = len(it) }
	v.Setenv("GO_FLAGS_COMPLETION", "1")
	var argv []string
	switch v.Choice(3) {
	case 0:
		argv = []string{"add", "-y", v.String(v.Shape("lf"))}
	case 1:
		argv = []string{v.String(v.Shape("lf"))}
	case 2:
		argv = []string{}
	}
	_, err := p.ParseArgs(argv)
	v.Reach("completed")
	v.Assert(err == nil, "completion mode returns no error")
	v.Assert(len(log.ids) == 0 && handlerCalls == 0, "in completion mode nothing is executed")
	v.Assert(items >= 0, "the completion handler received the items")
}

type c09Run struct {
	V   bool `short:"v"`
	Pos struct {
		Count int
		Rest  []int
	} `positional-args:"yes"`
	log *c09Log
}

func (c *c09Run) Execute(a []string) error { return c.log.run("run", a) }

// H_C09_posfault: a positional argument that does not convert - before or
// after the terminator, as the first field or as an element of the trailing
// slice - is a parse error, so the command must not run.
func H_C09_posfault(v *V) {
	log := &c09Log{}
	run := &c09Run{log: log}
	opts := Options(PassDoubleDash)
	if v.Choice(2) == 1 {
		opts |= PassAfterNonOption
	}
	p := NewNamedParser("prog", opts)
	p.AddGroup("Application Options", "", &c09Root{})
	p.AddCommand("run", "", "", run)
	F := v.String(v.Shape("lf"))
	_, _, isInt := refInt(F, 10, 64, true)
	place := v.Choice(5)
	var argv []string
	switch place {
	case 0:
		v.Assume(!refOptionSyntax(F) && F != "--")
		argv = []string{"run", F}
	case 1:
		argv = []string{"run", "--", F}
	case 2:
		// (under PassAfterNonOption the `--` after the word 5 is itself passed
		// through to the int slice - a different, legitimate failure)
		v.Assume(opts&PassAfterNonOption == 0)
		argv = []string{"run", "5", "--", F}
	case 3:
		argv = []string{"run", "-v", "--", "7", F}
	case 4:
		v.Assume(!refOptionSyntax(F) && F != "--")
		argv = []string{"run", "5", "-v", F}
		if opts&PassAfterNonOption != 0 {
			// everything after the first non-option is passed through
			argv = []string{"run", "5", F}
		}
	}
	rest, err := p.ParseArgs(argv)
	vObsErr(v, err)
	v.ObserveInt("runs", len(log.ids))
	if !isInt {
		v.Reach("faulty")
		// (the error is the conversion's own error, not a typed *flags.Error)
		v.Assert(err != nil, "a positional argument that does not convert is rejected")
		v.Assert(len(log.ids) == 0, "nothing is executed when a positional argument does not convert")
		return
	}
	v.Reach("clean")
	v.Assert(err == nil, "a convertible positional argument parses")
	v.Assert(len(log.ids) == 1 && log.ids[0] == "run", "exactly one command invocation after a clean parse")
	if len(log.ids) == 1 {
		v.Assert(v.EqStrs(log.args[0], rest) && len(rest) == 0, "all words were bound, none remains")
	}
}

type c09Put struct {
	Name string `long:"name" required:"true"`
	Pos  struct {
		File string
		More []string
	} `positional-args:"yes"`
	log *c09Log
}

func (c *c09Put) Execute(a []string) error { return c.log.run("put", a) }

// H_C09_reqpos: a command with a required option and optional positional
// arguments - whether or not the positionals are filled, a missing required
// option means nothing runs.
func H_C09_reqpos(v *V) {
	log := &c09Log{}
	put := &c09Put{log: log}
	p := NewNamedParser("prog", PassDoubleDash)
	p.AddGroup("Application Options", "", &c09Root{})
	p.AddCommand("put", "", "", put)
	withName := v.Choice(2) == 1
	nWords := v.Choice(3)
	argv := []string{"put"}
	namePos := v.Choice(nWords + 1)
	for i := 0; i <= nWords; i++ {
		if withName && i == namePos {
			nm := v.String(1)
			v.Assume(nm != "\"") // a lone quote is an unterminated literal (C02's subject)
			argv = append(argv, "--name="+nm)
		}
		if i < nWords {
			w := v.String(1)
			v.Assume(w != "-")
			argv = append(argv, "w"+w)
		}
	}
	rest, err := p.ParseArgs(argv)
	vObsErr(v, err)
	v.ObserveInt("runs", len(log.ids))
	if !withName {
		v.Reach("faulty")
		t, typed := vErrType(err)
		v.Assert(err != nil && typed && t == ErrRequired, "a missing required option fails with ErrRequired whether or not positional arguments were given")
		v.Assert(len(log.ids) == 0, "nothing is executed when a required option is missing")
		return
	}
	v.Reach("clean")
	v.Assert(err == nil, "the complete vector parses")
	v.Assert(len(log.ids) == 1 && log.ids[0] == "put", "exactly one command invocation after a clean parse")
	if len(log.ids) == 1 {
		v.Assert(v.EqStrs(log.args[0], rest) && len(rest) == 0, "all words were bound, none remains")
	}
}

type c09Serve struct {
	Ports []int `long:"port" env:"C09_PORTS" env-delim:","`
	Level int   `long:"level" env:"C09_LEVEL"`
	log   *c09Log
}

func (c *c09Serve) Execute(a []string) error { return c.log.run("serve", a) }

// H_C09_envfault: a value that does not convert arrives through the
// environment (a scalar, or any element of a delimited list): the parse
// fails and nothing runs.
func H_C09_envfault(v *V) {
	log := &c09Log{}
	serve := &c09Serve{log: log}
	p := NewNamedParser("prog", None)
	p.AddGroup("Application Options", "", &c09Root{})
	p.AddCommand("serve", "", "", serve)
	handlerCalls := 0
	if v.Choice(2) == 1 {
		p.CommandHandler = func(c Commander, args []string) error {
			handlerCalls++
			return c.Execute(args)
		}
	}
	F := v.String(v.Shape("lf"))
	v.Assume(!refIsDecimal(F) && refIndexByte(F, ',') < 0)
	switch v.Choice(4) {
	case 0:
		v.Setenv("C09_LEVEL", F)
	case 1:
		v.Setenv("C09_PORTS", F+",80,443")
	case 2:
		v.Setenv("C09_PORTS", "80,"+F+",443")
	case 3:
		v.Setenv("C09_PORTS", "80,443,"+F)
	}
	_, err := p.ParseArgs([]string{"-g", "serve", "rest"})
	vObsErr(v, err)
	v.ObserveInt("runs", len(log.ids))
	v.Reach("faulty")
	v.Assert(err != nil, "an environment value that does not convert is a parse error")
	v.Assert(len(log.ids) == 0 && handlerCalls == 0, "nothing is executed when an environment value does not convert")
}

func init() {
	vHarnesses["H_C09_envfault"] = H_C09_envfault
	vHarnesses["H_C09_reqpos"] = H_C09_reqpos
	vHarnesses["H_C09_posfault"] = H_C09_posfault
	vHarnesses["H_C09_exec"] = H_C09_exec
	vHarnesses["H_C09_completion"] = H_C09_completion
}
