//go:build verif

package flags

import "bytes"

// C16 - help and man page show exactly the visible interface.

type c16Inner struct {
	IO string `long:"iopt" description:"DESCIO" default:"DEFIO" env:"EIO"`
}
type c16Grp struct {
	GO    string   `short:"g" long:"gopt" description:"DESCGO" value-name:"GVAL" choice:"gca" choice:"gcb"`
	Inner c16Inner `group:"Inner Group" namespace:"in" env-namespace:"ENS"`
}
type c16SubCmd struct {
	SO bool `long:"sopt" description:"DESCSO"`
}
type c16CmdGrp struct {
	CG string `long:"cgrp" description:"DESCCG" default:"SECRETV" default-mask:"MASKV"`
}
type c16Cmd struct {
	CO  bool      `short:"k" long:"copt" description:"DESCCO"`
	CGr c16CmdGrp `group:"Cmd Group"`
	Sub c16SubCmd `command:"subc" description:"DESCSUB" alias:"subalias"`
	Pos struct {
		PA string `description:"DESCPA" positional-arg-name:"posa"`
		PB string `positional-arg-name:"posb"`
	} `positional-args:"yes"`
}
type c16Hid struct {
	HO bool `long:"hopt" description:"DESCHO"`
}
type c16Gr struct {
	GR bool `long:"grx" description:"DESCGRX"`
}
type c16Root struct {
	RO  string `short:"r" long:"ropt" description:"DESCRO" default:"DEFRO"`
	RM  string `long:"rmask" description:"DESCRM" default:"SECRETR" default-mask:"-"`
	RN  bool   `long:"rnodesc"`
	Grp c16Grp `group:"Main Group" namespace:"mg"`
	Cmd c16Cmd `command:"cmda" description:"DESCCMDA" alias:"cmdalias"`
	Hid c16Hid `command:"hcmd" description:"DESCHCMD" hidden:"yes"`
	Gr  c16Gr  `command:"größe" description:"DESCGR" alias:"gralias"`
}

type c16Item struct {
	name    string
	hidden  *bool
	parents []int    // items whose hiding hides this one
	level   int      // command depth needed on the active chain (help only)
	help    []string // markers the help text must contain iff shown
	man     []string // markers the man page must contain iff shown
}

// H_C16_visible: symbolic hidden marks on up to two items, every active chain,
// both generators.
func H_C16_visible(v *V) {
	d := &c16Root{}
	p := NewNamedParser("prog", None)
	p.ShortDescription = "SHORTDESC"
	p.AddGroup("Application Options", "", d)
	cmda := p.Find("cmda")
	subc := cmda.Find("subc")
	mg := p.Group.Find("Main Group")
	ig := p.Group.Find("Inner Group")
	cg := cmda.Group.Find("Cmd Group")
	opt := func(c *Command, long string) *Option { return c.FindOptionByLongName(long) }
	// item indices: 0 mg, 1 ig, 2 cg, 3 cmda, 4 subc, then options
	items := []c16Item{
		{name: "Main Group", hidden: &mg.Hidden},
		{name: "Inner Group", hidden: &ig.Hidden, parents: []int{0}},
		{name: "Cmd Group", hidden: &cg.Hidden, parents: []int{3}, level: 1},
		{name: "cmda", hidden: &cmda.Group.Hidden},
		{name: "subc", hidden: &subc.Group.Hidden, parents: []int{3}, level: 1},
		{name: "ropt", hidden: &opt(p.Command, "ropt").Hidden, help: []string{"-r, --ropt=", "DESCRO", "DEFRO"}, man: []string{"ropt", "DESCRO", "DEFRO"}},
		{name: "rmask", hidden: &opt(p.Command, "rmask").Hidden, help: []string{"--rmask=", "DESCRM"}, man: []string{"rmask", "DESCRM"}},
		{name: "rnodesc", hidden: &opt(p.Command, "rnodesc").Hidden, help: []string{"--rnodesc"}, man: []string{"rnodesc"}},
		{name: "gopt", hidden: &opt(p.Command, "mg.gopt").Hidden, parents: []int{0}, help: []string{"-g, --mg.gopt=GVAL[gca|gcb]", "DESCGO"}, man: []string{"mg.gopt", "GVAL", "DESCGO"}},
		{name: "iopt", hidden: &opt(p.Command, "mg.in.iopt").Hidden, parents: []int{0, 1}, help: []string{"--mg.in.iopt=", "DESCIO", "DEFIO", "$ENS_EIO"}, man: []string{"mg.in.iopt", "DESCIO", "DEFIO"}},
		{name: "copt", hidden: &opt(cmda, "copt").Hidden, parents: []int{3}, level: 1, help: []string{"-k, --copt", "DESCCO"}, man: []string{"copt", "DESCCO"}},
		{name: "cgrp", hidden: &opt(cmda, "cgrp").Hidden, parents: []int{3, 2}, level: 1, help: []string{"--cgrp=", "DESCCG", "MASKV"}, man: []string{"cgrp", "DESCCG"}},
		{name: "sopt", hidden: &opt(subc, "sopt").Hidden, parents: []int{3, 4}, level: 2, help: []string{"--sopt", "DESCSO"}, man: []string{"sopt", "DESCSO"}},
	}
	// hide up to `nh` items chosen symbolically
	nh := v.Shape("nh")
	prev := -1
	for k := 0; k < nh; k++ {
		i := prev + 1 + v.Choice(len(items)-prev-1)
		*items[i].hidden = true
		prev = i
		if prev == len(items)-1 {
			break
		}
	}
	// scope decision: an item that is visible itself, in a visible direct
	// container, but below a hidden outer group or command is not judged
	ambiguous := func(i int) bool {
		ps := items[i].parents
		if *items[i].hidden || len(ps) == 0 || *items[ps[len(ps)-1]].hidden {
			return false
		}
		for _, pi := range ps[:len(ps)-1] {
			if *items[pi].hidden {
				return true
			}
		}
		return false
	}
	depth := v.Choice(3)
	var argv []string
	switch depth {
	case 1:
		argv = []string{"cmda"}
	case 2:
		argv = []string{"cmda", "x", "y", "subc"}
	}
	p.SubcommandsOptional = true
	cmda.SubcommandsOptional = true
	_, err := p.ParseArgs(argv)
	v.Assert(err == nil, "the command chain is selectable")
	if err != nil {
		return
	}
	shownBase := func(i int) bool {
		if *items[i].hidden {
			return false
		}
		for _, pi := range items[i].parents {
			if *items[pi].hidden {
				return false
			}
		}
		return true
	}
	gen := v.Choice(2)
	var buf bytes.Buffer
	if gen == 0 {
		v.Reach("help")
		p.WriteHelp(&buf)
		out := buf.String()
		v.ObserveStr("out", out)
		for i, it := range items {
			if ambiguous(i) {
				continue
			}
			shown := shownBase(i) && it.level <= depth
			for _, m := range it.help {
				v.Assert(v.Contains(out, m) == shown, "help lists exactly the visible options of the active chain, with names, value name, choices, description, default or mask and environment variable")
			}
		}
		v.Assert(!v.Contains(out, "SECRETV") && !v.Contains(out, "SECRETR"), "a masked default's real value never appears in the help")
		v.Assert(v.Contains(out, "DESCPA") == (depth >= 1), "described positional arguments of the active commands are listed")
		v.Assert(!v.Contains(out, "hcmd") && !v.Contains(out, "DESCHCMD") && !v.Contains(out, "hopt"), "a hidden command is never listed")
		wantA := depth == 0 && !cmda.Hidden
		// (a command's description also heads its own option block once it is
		// active, so absence is judged on the alias marker)
		v.Assert(v.Contains(out, "cmdalias") == wantA && (!wantA || v.Contains(out, "DESCCMDA")), "visible subcommands of the innermost command are listed with their aliases")
		v.Assert(v.Contains(out, "gralias") == (depth == 0) && (depth != 0 || v.Contains(out, "DESCGR")), "a visible subcommand with a non-ASCII name is listed with its aliases")
		wantS := depth == 1 && !subc.Hidden
		v.Assert(v.Contains(out, "subalias") == wantS && (!wantS || v.Contains(out, "DESCSUB")), "visible subcommands of the active command are listed with their aliases")
	} else {
		v.Reach("man")
		v.Setenv("SOURCE_DATE_EPOCH", "86400")
		p.WriteManPage(&buf)
		out := buf.String()
		v.ObserveStr("out", out)
		for i, it := range items {
			if ambiguous(i) {
				continue
			}
			shown := shownBase(i)
			for _, m := range it.man {
				v.Assert(v.Contains(out, m) == shown, "the man page lists exactly the visible options of the whole tree")
			}
		}
		v.Assert(!v.Contains(out, "SECRETV") && !v.Contains(out, "SECRETR"), "a masked default's real value never appears in the man page")
		v.Assert(!v.Contains(out, "hcmd") && !v.Contains(out, "DESCHCMD") && !v.Contains(out, "hopt"), "a hidden command is never listed in the man page")
		v.Assert(v.Contains(out, "DESCCMDA") == !cmda.Hidden && v.Contains(out, "cmdalias") == !cmda.Hidden, "visible commands are listed with their aliases")
		v.Assert(v.Contains(out, "DESCGR") && v.Contains(out, "gralias") && v.Contains(out, "DESCGRX"), "a visible command with a non-ASCII name is listed in the man page")
		wantS := !cmda.Hidden && !subc.Hidden
		v.Assert(v.Contains(out, "DESCSUB") == wantS && v.Contains(out, "subalias") == wantS, "visible subcommands are listed with their aliases")
	}
}

// c16Dewrap undoes the hyphenated hard breaks of the help wrapper: a '-'
// at a line end together with the following blank line (the wrapper emits
// one) and indentation is removed.
func c16Dewrap(s string) string {
	out := make([]byte, 0, len(s))
	for i := 0; i < len(s); i++ {
		if s[i] == '-' && i+1 < len(s) && s[i+1] == '\n' {
			j := i + 2
			for j < len(s) && (s[j] == ' ' || s[j] == '\n') {
				j++
			}
			i = j - 1
			continue
		}
		out = append(out, s[i])
	}
	return string(out)
}

const c16LongDefault = "https://example.org/a/very/long/path/without/any/space/in/it/index.html"

type c16ND struct {
	URL   string `long:"url" description:"DURL" default:"https://example.org/a/very/long/path/without/any/space/in/it/index.html"`
	Host  string `long:"host" default:"localhost" description:"DHOST"`
	Token string `long:"token" description:"DTOKEN"`
	Port  int    `short:"p" long:"port" description:"DPORT"`
}

// H_C16_nodefault: help requested on the command line after other options:
// an option without default shows none - in particular not the value just
// given - and a declared default is shown unchanged.
func H_C16_nodefault(v *V) {
	T := v.String(v.Shape("lv"))
	for i := 0; i < len(T); i++ {
		v.Assume(T[i] >= 'a' && T[i] <= 'z')
	}
	d := &c16ND{}
	p := NewNamedParser("prog", HelpFlag)
	p.AddGroup("Application Options", "", d)
	// one arbitrary printable character in a description beside a default
	D := v.String(1)
	v.Assume(D[0] > ' ' && D[0] < 0x7f)
	p.FindOptionByLongName("host").Description = "DHOST" + D + "s"
	var argv []string
	if v.Choice(2) == 1 {
		argv = append(argv, "--host=zz"+T)
	}
	argv = append(argv, "--token=qq"+T, "-p", "8123", "--help")
	_, err := p.ParseArgs(argv)
	t, typed := vErrType(err)
	v.Assert(err != nil && typed && t == ErrHelp, "the help request is answered with ErrHelp")
	if err == nil {
		return
	}
	out := err.Error()
	v.Reach("help")
	v.ObserveStr("help", out)
	v.Assert(v.Contains(out, "DTOKEN") && v.Contains(out, "DPORT") && v.Contains(out, "DHOST"+D+"s (default: localhost)"), "descriptions are listed, the declared default beside its description")
	v.Assert(!v.Contains(out, "qq"+T) && !v.Contains(out, "8123") && !v.Contains(out, "zz"+T), "a value given on the command line is not presented as a default")
	v.Assert(!v.Contains(out, "DTOKEN (default") && !v.Contains(out, "DPORT (default"), "an option without default shows none")
	v.Assert(v.Contains(c16Dewrap(out), c16LongDefault+")"), "a default longer than the description column is shown completely (hard breaks undone)")
}

func init() {
	vHarnesses["H_C16_nodefault"] = H_C16_nodefault
	vHarnesses["H_C16_visible"] = H_C16_visible
}
