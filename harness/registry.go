//go:build verif

package flags

// vHarnesses maps harness names to functions for native replay.
var vHarnesses = map[string]func(*V){}
