//go:build verif

package flags

// replay_test.go: native replay of counterexamples and path witnesses. Reads
// the list of replay files from $VERIF_REPLAY_LIST and appends one JSON result
// line per file to $VERIF_REPLAY_OUT.

import (
	"bufio"
	"encoding/json"
	"fmt"
	"io/ioutil"
	"os"
	"strings"
	"testing"
	"time"
)

type vReplayRec struct {
	Property string         `json:"property"`
	Harness  string         `json:"harness"`
	Shape    map[string]int `json:"shape"`
	Known    []string       `json:"known"`
	Kind     string         `json:"kind"`
	Msg      string         `json:"msg"`
	Values   []vReplayValue `json:"values"`
}

type vReplayResult struct {
	File   string   `json:"file"`
	Status string   `json:"status"`
	Failed []string `json:"failed"`
	Panic  string   `json:"panic"`
	Obs    []string `json:"obs"`
	Reach  []string `json:"reach"`
}

func vAppendResult(out string, r vReplayResult) {
	f, err := os.OpenFile(out, os.O_APPEND|os.O_CREATE|os.O_WRONLY, 0o644)
	if err != nil {
		panic(err)
	}
	b, _ := json.Marshal(r)
	f.Write(append(b, '\n'))
	f.Close()
}

func vRunOne(file string) (res vReplayResult) {
	res.File = file
	b, err := ioutil.ReadFile(file)
	if err != nil {
		res.Status = "error"
		res.Panic = err.Error()
		return
	}
	var rec vReplayRec
	if err := json.Unmarshal(b, &rec); err != nil {
		res.Status = "error"
		res.Panic = err.Error()
		return
	}
	h, ok := vHarnesses[rec.Harness]
	if !ok {
		res.Status = "error"
		res.Panic = "unknown harness " + rec.Harness
		return
	}
	v := &V{shape: rec.Shape, vals: rec.Values, known: map[string]bool{}}
	for _, k := range rec.Known {
		v.known[k] = true
	}
	v.captureStart()
	func() {
		defer func() {
			r := recover()
			v.captureEnd()
			if r == nil {
				return
			}
			if af, ok := r.(vAssumeFailed); ok {
				res.Status = "assume"
				res.Panic = af.msg
				return
			}
			res.Status = "panic"
			res.Panic = fmt.Sprint(r)
		}()
		h(v)
	}()
	res.Failed = v.Failed
	res.Obs = v.Obs
	res.Reach = v.ReachLog
	if res.Status == "" {
		if len(v.Failed) > 0 {
			res.Status = "failed"
		} else {
			res.Status = "ok"
		}
	}
	return
}

func TestVerifReplay(t *testing.T) {
	list := os.Getenv("VERIF_REPLAY_LIST")
	out := os.Getenv("VERIF_REPLAY_OUT")
	if list == "" || out == "" {
		t.Skip("no replay list")
	}
	fmt.Println("VERIF-REPLAY-START")
	f, err := os.Open(list)
	if err != nil {
		t.Fatal(err)
	}
	defer f.Close()
	sc := bufio.NewScanner(f)
	for sc.Scan() {
		file := strings.TrimSpace(sc.Text())
		if file == "" {
			continue
		}
		done := make(chan vReplayResult, 1)
		go func() { done <- vRunOne(file) }()
		select {
		case r := <-done:
			vAppendResult(out, r)
		case <-time.After(20 * time.Second):
			vAppendResult(out, vReplayResult{File: file, Status: "hang"})
			fmt.Println("VERIF-REPLAY-HANG", file)
			os.Exit(3)
		}
	}
}
