//go:build verif

package flags

import (
	"bytes"
	"strings"
)

// C15 - outcomes are deterministic.
//
// Every operation is evaluated under an arbitrary iteration order of every
// Go map the library ranges over (the engine forks over all orders) and
// compared byte for byte with the evaluation under the canonical order.
// Natively (replay) map order is the runtime's: the operation is repeated.

type c15Help struct {
	M map[string]int `long:"mm" description:"DESC"`
	S string         `long:"ss" description:"OTHER"`
}

type c15Ini struct {
	M map[string]string `long:"mm"`
	N map[string]int    `long:"nn"`
}

type c15Sec struct {
	S string `long:"ss"`
	T string `long:"tt"`
}

type c15Comp struct {
	Alpha bool `long:"alpha" short:"a"`
	Alt   bool `long:"alt"`
	Also  bool `short:"b" long:"also"`
	ALT   bool `long:"ALT"`
	Alto  bool `long:"Alt"`
	Up    bool `short:"A"`
}

type c15Env struct {
	A int `long:"ea" env:"C15_A"`
	B int `long:"eb" env:"C15_B"`
	C int `long:"ec" env:"C15_C"`
}

type c15Req struct {
	A bool `long:"aa" required:"true"`
	B bool `short:"b" required:"true"`
	C bool `long:"cc" short:"c" required:"true"`
}

// c15Key: a one-letter key
func c15Key(v *V) string {
	k := v.String(1)
	v.Assume(k[0] >= 'a' && k[0] <= 'z')
	return k
}

// c15KeyN: a key of n lower-case letters or digits
func c15KeyN(v *V, n int) string {
	k := v.String(n)
	for i := 0; i < n; i++ {
		v.Assume((k[i] >= 'a' && k[i] <= 'z') || (k[i] >= '0' && k[i] <= '9'))
	}
	return k
}

// c15Run evaluates scenario scen once and returns everything observable.
func c15Run(v *V, scen int, keys []string, vals []string) string {
	switch scen {
	case 0: // help text showing the default of a pre-populated map option
		d := &c15Help{M: map[string]int{}}
		for i, k := range keys {
			d.M[k] = i + 1
		}
		p := NewNamedParser("prog", None)
		p.AddGroup("Application Options", "", d)
		p.ParseArgs(nil)
		var b bytes.Buffer
		p.WriteHelp(&b)
		return b.String()
	case 1: // man page
		d := &c15Help{M: map[string]int{}}
		for i, k := range keys {
			d.M[k] = i + 1
		}
		p := NewNamedParser("prog", None)
		p.AddGroup("Application Options", "", d)
		p.ParseArgs(nil)
		var b bytes.Buffer
		p.WriteManPage(&b)
		return b.String()
	case 2: // INI output of maps
		d := &c15Ini{M: map[string]string{}, N: map[string]int{}}
		for i, k := range keys {
			d.M[k] = vals[i]
			d.N[k] = i
		}
		p := NewNamedParser("prog", None)
		p.AddGroup("Application Options", "", d)
		p.ParseArgs(nil)
		var b bytes.Buffer
		NewIniParser(p).Write(&b, IniIncludeDefaults)
		return b.String()
	case 3: // the same option set in two sections that both resolve to it
		d := &c15Sec{}
		p := NewNamedParser("prog", None)
		p.AddGroup("Application Options", "", d)
		text := "ss = " + vals[0] + "\ntt = x\n[Application Options]\nss = " + vals[1] + "\n"
		err := NewIniParser(p).Parse(strings.NewReader(text))
		return "S=" + d.S + " T=" + d.T + " err=" + vErrString(err)
	case 4: // completion list
		d := &c15Comp{}
		p := NewNamedParser("prog", None)
		p.AddGroup("Application Options", "", d)
		out := ""
		p.CompletionHandler = func(items []Completion) {
			for _, it := range items {
				out += it.Item + "|"
			}
		}
		p.ParseArgs([]string{[]string{"--", "-", "--A"}[len(keys)-1]})
		return out
	case 5: // error message naming several items
		p := NewNamedParser("prog", None)
		p.AddGroup("Application Options", "", &c15Req{})
		_, err := p.ParseArgs(nil)
		return vErrString(err)
	case 7: // unknown command: several names (and aliases) at the same distance
		p := NewNamedParser("prog", None)
		for _, n := range []string{"add", "list", "lint", "remove"} {
			c, _ := p.AddCommand(n, "", "", &struct{}{})
			if n == "remove" {
				c.Aliases = []string{"lisp", "link"}
			}
		}
		_, err := p.ParseArgs([]string{"li" + keys[0]})
		return vErrString(err)
	case 9: // completion of a command word when several names and aliases share the prefix
		p := NewNamedParser("prog", None)
		for _, n := range []string{"delete", "list", "load"} {
			c, _ := p.AddCommand(n, "", "", &struct{}{})
			switch n {
			case "delete":
				c.Aliases = []string{"remove", "rm", "ld"}
			case "list":
				c.Aliases = []string{"ls", "dir"}
			}
		}
		out := ""
		p.CompletionHandler = func(items []Completion) {
			for _, it := range items {
				out += it.Item + "|"
			}
		}
		p.ParseArgs([]string{keys[0]})
		return out
	case 10: // INI output of a map whose keys all need quoting (leading blank)
		d := &c15Ini{M: map[string]string{}, N: map[string]int{}}
		for i, k := range keys {
			d.M[" "+k] = vals[i]
			d.N[" "+k] = i
		}
		p := NewNamedParser("prog", None)
		p.AddGroup("Application Options", "", d)
		p.ParseArgs(nil)
		var b bytes.Buffer
		NewIniParser(p).Write(&b, IniIncludeDefaults)
		return b.String()
	case 11: // several environment defaults that do not convert: which one the error names
		d := &c15Env{}
		p := NewNamedParser("prog", None)
		p.AddGroup("Application Options", "", d)
		_, err := p.ParseArgs(nil)
		return vErrString(err)
	case 12: // an INI text in which one or two of several options have bad values: what is applied before the error
		d := &c15Env{}
		p := NewNamedParser("prog", None)
		p.AddGroup("Application Options", "", d)
		text := "ea = 1\neb = x" + keys[0] + "\nec = 3\n"
		if len(keys) > 2 {
			text = "ea = 1\neb = x" + keys[0] + "\nec = y" + keys[1] + "\n"
		}
		err := NewIniParser(p).Parse(strings.NewReader(text))
		return refItoa(d.A) + "," + refItoa(d.B) + "," + refItoa(d.C) + " err=" + vErrString(err)
	case 8: // an INI text with several unknown sections: which one the error names
		d := &c15Sec{}
		p := NewNamedParser("prog", None)
		p.AddGroup("Application Options", "", d)
		text := "ss = 1\n"
		for _, k := range keys {
			text += "[zz" + k + "]\nss = 2\n"
		}
		err := NewIniParser(p).Parse(strings.NewReader(text))
		return "S=" + d.S + " err=" + vErrString(err)
	case 6: // final values after parsing map options
		d := &c15Ini{}
		p := NewNamedParser("prog", None)
		p.AddGroup("Application Options", "", d)
		var argv []string
		for i, k := range keys {
			argv = append(argv, "--mm="+k+":"+vals[i])
		}
		_, err := p.ParseArgs(argv)
		out := vErrString(err)
		for _, k := range keys {
			out += " " + k + "=" + d.M[k]
		}
		return out
	}
	return ""
}

func H_C15_twice(v *V) {
	scen := v.Shape("scen")
	n := v.Shape("n")
	keys := make([]string, n)
	vals := make([]string, n)
	lk := v.Shape("lk")
	for i := range keys {
		// with lk=2 the keys are letters or digits and the second has two
		// characters (so that two keys may denote the same number, e.g. 1 and 01)
		if lk == 2 {
			keys[i] = c15KeyN(v, 1+i%2+i/2)
		} else {
			keys[i] = c15Key(v)
		}
		vals[i] = c15Key(v)
		for j := 0; j < i; j++ {
			v.Assume(keys[i] != keys[j])
		}
	}
	if scen == 4 || scen == 5 {
		v.Setenv("GO_FLAGS_COMPLETION", []string{"", "1"}[5-scen])
	}
	if scen == 9 {
		v.Setenv("GO_FLAGS_COMPLETION", "1")
	}
	if scen == 11 {
		for i, k := range keys {
			v.Setenv([]string{"C15_A", "C15_B", "C15_C"}[i], "x"+k)
		}
	}
	v.Setenv("SOURCE_DATE_EPOCH", "86400")
	v.MapOrder(false)
	ref := c15Run(v, scen, keys, vals)
	v.ObserveStr("ref", ref)
	reps := 1
	if !v.Symbolic() {
		reps = 60
	}
	v.MapOrder(true)
	for r := 0; r < reps; r++ {
		out := c15Run(v, scen, keys, vals)
		v.Assert(v.EqStr(out, ref), "repeated evaluation gives byte-identical output and identical final values, whatever order the runtime chooses for the maps it ranges over")
	}
	v.MapOrder(false)
	v.Reach("compared")
}

func init() {
	vHarnesses["H_C15_twice"] = H_C15_twice
}
