//go:build verif

package flags

// hlp.go: helpers shared by harnesses (rendering of option occurrences,
// option-set selection, error inspection).

// vSpellings of an occurrence of an option with argument V.
const (
	spShortAttached = iota // -xV
	spShortEq              // -x=V
	spShortSep             // -x V
	spLongEq               // --name=V
	spLongSep              // --name V
	spCount
)

// vRender appends one occurrence of the option (short, long) with value val in
// spelling sp.
func vRender(argv []string, sp int, short, long, val string) []string {
	switch sp {
	case spShortAttached:
		return append(argv, "-"+short+val)
	case spShortEq:
		return append(argv, "-"+short+"="+val)
	case spShortSep:
		return append(argv, "-"+short, val)
	case spLongEq:
		return append(argv, "--"+long+"="+val)
	}
	return append(argv, "--"+long, val)
}

// vErrType returns (type, true) if err is a *Error, else (0, false).
func vErrType(err error) (ErrorType, bool) {
	if e, ok := err.(*Error); ok {
		return e.Type, true
	}
	return 0, false
}

// vOptions builds a parser option set from symbolic bits among `allowed`.
func vOptions(v *V, allowed ...Options) Options {
	o := Options(0)
	for _, a := range allowed {
		if v.Choice(2) == 1 {
			o |= a
		}
	}
	return o
}

func vErrString(err error) string {
	if err == nil {
		return "<nil>"
	}
	return err.Error()
}

// vObsErr records the outcome class of a parse (not the message text: the
// engine stubs the standard library's quoting inside strconv error texts).
func vObsErr(v *V, err error) {
	if err == nil {
		v.ObserveStr("err", "nil")
		return
	}
	if t, ok := vErrType(err); ok {
		v.ObserveStr("err", t.String())
		return
	}
	v.ObserveStr("err", "other")
}
