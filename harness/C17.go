//go:build verif

package flags

import "bytes"

// C17 - help layout is well-formed for every declaration and width.

// c17Text builds a text of n characters, each of a symbolic class (blank,
// newline, ASCII letter, two-byte letter) with symbolic contents.
func c17Text(v *V, n int, classes int) string {
	s := ""
	for i := 0; i < n; i++ {
		switch v.Choice(classes) {
		case 0:
			b := v.String(1)
			v.Assume(b[0] >= 'a' && b[0] <= 'z')
			s += b
		case 1:
			s += " "
		case 2:
			b := v.String(1)
			v.Assume(b[0] >= 0x80 && b[0] <= 0xBF)
			s += "\xc3" + b
		case 3:
			s += "\n"
		case 4:
			s += "\xc2\xa0" // no-break space: white space wider than one byte
		case 5:
			s += "\xe3\x80\x80" // ideographic space
		}
	}
	return s
}

// H_C17_wrap: unit harness on the wrapping routine.
func H_C17_wrap(v *V) {
	width := v.Shape("width")
	fill := v.Shape("fill")
	prefix := []string{"", "   "}[v.Choice(2)]
	d := ""
	for i := 0; i < fill; i++ {
		d += "w"
	}
	d += c17Text(v, v.Shape("n"), v.Shape("classes"))
	for i := 0; i < v.Shape("tail"); i++ {
		d += "t"
	}
	o := wrapText(d, width, prefix)
	v.ObserveStr("o", o)
	v.Reach("wrapped")
	code := refWrapCheck(d, width, prefix, o)
	v.Assert(code != 1, "every continuation line starts with the indentation prefix")
	v.Assert(code != 2, "no line is wider than the wrap width (in characters)")
	v.Assert(code != 3 && code != 5, "the wrapped text contains the original characters in order, nothing lost or corrupted")
	v.Assert(code != 4, "words are not joined or split except at a hyphenated break")
}

// H_C17_wrapraw: arbitrary bytes - the routine must not panic.
func H_C17_wrapraw(v *V) {
	d := v.String(v.Shape("n"))
	o := wrapText("wwwwwww"+d, v.Shape("width"), "  ")
	v.Reach("wrapped")
	v.Assert(len(o) >= 0, "wrapping returns")
}

type c17Tuning struct {
	W string `long:"congestion-window-size-in-segments" description:"DESCW"`
}
type c17Internal struct {
	T c17Tuning `group:"Tuning" namespace:"tuning"`
	I bool      `long:"int" description:"DESCI"`
}

// H_C17_nested: hidden / visible group nesting must never make help panic.
func H_C17_nested(v *V) {
	type decl struct {
		V   bool        `short:"v" long:"verbose" description:"DESCV"`
		Int c17Internal `group:"Internal" namespace:"internal"`
	}
	d := &decl{}
	p := NewNamedParser("prog", None)
	p.AddGroup("Application Options", "", d)
	if v.Choice(2) == 1 {
		p.Group.Find("Internal").Hidden = true
	}
	if v.Choice(2) == 1 {
		p.Group.Find("Tuning").Hidden = true
	}
	if v.Choice(2) == 1 {
		p.FindOptionByLongName("internal.int").Hidden = true
	}
	v.TermWidth(v.Shape("width"))
	p.ParseArgs([]string{})
	var buf bytes.Buffer
	p.WriteHelp(&buf)
	out := buf.String()
	v.Reach("rendered")
	v.ObserveStr("help", out)
	cv, cw := c17Column(out, "DESCV"), c17Column(out, "DESCW")
	v.Assert(cv >= 0, "the visible option is described")
	if cw >= 0 {
		v.Assert(cv == cw, "all option descriptions start in one common column")
	}
}

type c17Sub struct{}

// H_C17_commands: the command list of the help text with names of any script.
func H_C17_commands(v *V) {
	p := NewNamedParser("prog", None)
	name := c17Name(v, v.Shape("n"))
	c1, err := p.AddCommand(name, "DESCONE", "", &c17Sub{})
	if err != nil {
		v.Assume(false)
	}
	c1.Aliases = []string{"al"}
	p.AddCommand("list", "DESCTWO", "", &c17Sub{})
	v.TermWidth(v.Shape("width"))
	var buf bytes.Buffer
	p.WriteHelp(&buf)
	out := buf.String()
	v.Reach("rendered")
	v.ObserveStr("help", out)
	c1c, c2c := c17Column(out, "DESCONE"), c17Column(out, "DESCTWO")
	v.Assert(c1c >= 0 && c2c >= 0, "every command description is printed")
	v.Assert(c1c == c2c, "command descriptions start in one common column")
}

type c17L struct {
	A   bool   `short:"a" long:"al" description:"DESCA is a long description that wraps around"`
	B   string `long:"beta" description:"DESCB" value-name:"VAL" choice:"x" choice:"y"`
	C   string `short:"c" description:"DESCC"`
	Pos struct {
		First string `description:"DESCP" positional-arg-name:"first"`
	} `positional-args:"yes"`
}

// c17Name builds a name of n characters: ASCII letters, two-byte and
// three-byte letters (symbolic contents).
func c17Name(v *V, n int) string {
	s := ""
	for i := 0; i < n; i++ {
		switch v.Choice(3) {
		case 0:
			b := v.String(1)
			v.Assume(b[0] >= 'a' && b[0] <= 'z')
			s += b
		case 1:
			b := v.String(1)
			v.Assume(b[0] >= 0x80 && b[0] <= 0xBF)
			s += "\xc3" + b
		case 2:
			b := v.String(1)
			v.Assume(b[0] >= 0xA0 && b[0] <= 0xBF)
			s += "\xe2\x82" + b
		}
	}
	return s
}

// c17Column returns the character column at which marker starts in text
// (-1 if absent) and whether every following line up to the next blank-free
// shorter-indented line is indented to that column.
func c17Column(text, marker string) int {
	idx := bytes.Index([]byte(text), []byte(marker))
	if idx < 0 {
		return -1
	}
	start := idx
	for start > 0 && text[start-1] != '\n' {
		start--
	}
	return len([]rune(text[start:idx]))
}

// H_C17_layout: names of any script, any width - help must not panic and all
// descriptions must start in one column.
func H_C17_layout(v *V) {
	which := v.Shape("which") // which name is symbolic: 0 long name, 1 value name, 2 positional name, 3 short rune
	width := v.Shape("width")
	d := &c17L{}
	p := NewNamedParser("prog", None)
	p.AddGroup("Application Options", "", d)
	name := c17Name(v, v.Shape("n"))
	// the argument option: with / without a value name and choices, its
	// argument mandatory or optional
	ob := p.FindOptionByLongName("beta")
	feat := 0
	if which != 1 {
		feat = v.Choice(4)
	} else {
		feat = 2 * v.Choice(2)
	}
	if feat == 1 || feat == 3 {
		ob.ValueName = ""
		ob.Choices = nil
	}
	if feat >= 2 {
		ob.OptionalArgument = true
		ob.OptionalValue = []string{"x"}
	}
	switch which {
	case 0:
		p.FindOptionByLongName("beta").LongName = name
	case 1:
		p.FindOptionByLongName("beta").ValueName = name
	case 2:
		p.Args()[0].Name = name
	case 3:
		p.FindOptionByShortName('c').ShortName = []rune(name)[0]
	}
	v.TermWidth(width)
	p.ParseArgs([]string{})
	var buf bytes.Buffer
	p.WriteHelp(&buf)
	out := buf.String()
	v.Reach("rendered")
	v.ObserveStr("help", out)
	ca, cb, cc, cp := c17Column(out, "DESCA"), c17Column(out, "DESCB"), c17Column(out, "DESCC"), c17Column(out, "DESCP")
	v.Assert(ca >= 0 && cb >= 0 && cc >= 0 && cp >= 0, "every description is printed")
	v.Assert(ca == cb && cb == cc, "all option descriptions start in one common column")
	v.Assert(cp == ca, "argument descriptions start in the same column")
	// continuation lines of the wrapped first description are indented to that column
	lines := refSplitLines(out)
	for i, ln := range lines {
		if c17Column(ln, "DESCA") >= 0 && i+1 < len(lines) && width >= ca+10 && width < ca+40 {
			next := []rune(lines[i+1])
			ok := len(next) > ca
			for k := 0; ok && k < ca; k++ {
				if next[k] != ' ' {
					ok = false
				}
			}
			v.Assert(ok && next[ca] != ' ', "continuation lines are indented to the description column")
			for _, l2 := range lines[i : i+2] {
				v.Assert(len([]rune(l2)) <= width, "no description line extends past the terminal width")
			}
		}
	}
}

type c17D struct {
	O   string `long:"opt" default:"dv" env:"EK"`
	Q   string `long:"qq"`
	Pos struct {
		First string `positional-arg-name:"first"`
	} `positional-args:"yes"`
}

// H_C17_desc: a description of arbitrary printable characters (among them
// the formatting character '%') reaches the help text uncorrupted, beside
// its default and environment variable.
func H_C17_desc(v *V) {
	D := v.String(v.Shape("n"))
	for i := 0; i < len(D); i++ {
		v.Assume(D[i] > ' ' && D[i] < 0x7f)
	}
	d := &c17D{}
	p := NewNamedParser("prog", None)
	p.AddGroup("Application Options", "", d)
	which := v.Choice(4)
	want := ""
	switch which {
	case 3:
		// a short description with an embedded line break: the second line
		// is indented to the description column
		p.FindOptionByLongName("qq").Description = "x" + D + "\nyy" + D
		want = "x" + D + "\n"
	case 0:
		p.FindOptionByLongName("opt").Description = "x" + D
		want = "x" + D + " (default: dv) [$EK]"
	case 1:
		p.FindOptionByLongName("qq").Description = "x" + D
		want = "x" + D + "\n"
	case 2:
		p.Args()[0].Description = "x" + D
		want = "x" + D + "\n"
	}
	v.TermWidth(80)
	p.ParseArgs([]string{})
	var buf bytes.Buffer
	p.WriteHelp(&buf)
	out := buf.String()
	v.Reach("rendered")
	v.ObserveStr("help", out)
	v.Assert(v.Contains(out, want), "the description is printed uncorrupted (with its default and environment variable beside it)")
	if which == 3 {
		c1, c2 := c17Column(out, "x"+D+"\n"), c17Column(out, "yy"+D)
		v.Assert(c1 >= 0 && c2 == c1, "the line after an embedded line break is indented to the description column")
	}
}

type c17Clone struct {
	Pos struct {
		Repo string `positional-arg-name:"repo" description:"DESCR"`
		Dest string `positional-arg-name:"destination-directory" description:"DESCD"`
	} `positional-args:"yes"`
}
type c17CloneOpt struct {
	Depth int `long:"depth" description:"DESCO"`
	Pos   struct {
		Repo string `positional-arg-name:"repo" description:"DESCR"`
		Dest string `positional-arg-name:"destination-directory" description:"DESCD"`
	} `positional-args:"yes"`
}

// H_C17_cmdargs: the help of an active command whose positional argument
// names are longer than every option label - with and without options of
// its own, with and without the built-in help group.
func H_C17_cmdargs(v *V) {
	type root struct {
		V bool `short:"v" long:"verbose" description:"DESCV"`
	}
	opts := Options(0)
	if v.Choice(2) == 1 {
		opts |= HelpFlag
	}
	p := NewNamedParser("prog", opts)
	p.AddGroup("Application Options", "", &root{})
	own := v.Choice(2) == 1
	var c *Command
	if own {
		c, _ = p.AddCommand("clone", "clone it", "", &c17CloneOpt{})
	} else {
		c, _ = p.AddCommand("clone", "clone it", "", &c17Clone{})
	}
	c.Args()[0].Name = "r" + c17Name(v, v.Shape("n"))
	v.TermWidth(v.Shape("width"))
	p.ParseArgs([]string{"clone"})
	var buf bytes.Buffer
	p.WriteHelp(&buf)
	out := buf.String()
	v.Reach("rendered")
	v.ObserveStr("help", out)
	cv, cr, cd := c17Column(out, "DESCV"), c17Column(out, "DESCR"), c17Column(out, "DESCD")
	v.Assert(cv >= 0 && cr >= 0 && cd >= 0, "every description is printed")
	v.Assert(cr == cd, "argument descriptions start in one common column")
	if own {
		co := c17Column(out, "DESCO")
		v.Assert(co >= 0 && co == cv, "option descriptions of the chain start in one common column")
	}
}

func init() {
	vHarnesses["H_C17_cmdargs"] = H_C17_cmdargs
	vHarnesses["H_C17_desc"] = H_C17_desc
	vHarnesses["H_C17_wrap"] = H_C17_wrap
	vHarnesses["H_C17_wrapraw"] = H_C17_wrapraw
	vHarnesses["H_C17_layout"] = H_C17_layout
	vHarnesses["H_C17_nested"] = H_C17_nested
	vHarnesses["H_C17_commands"] = H_C17_commands
}
