//go:build verif

package flags

// H_C20_lev: unit harness - the library's distance function against the
// textbook definition, for all byte strings of the given lengths.
func H_C20_lev(v *V) {
	s := v.String(v.Shape("ls"))
	t := v.String(v.Shape("lt"))
	d := levenshtein(s, t)
	r := refLev(s, t)
	v.ObserveInt("d", d)
	v.Reach("done")
	v.Assert(d == r, "distance equals the true Levenshtein distance over characters")
	v.Assert(d == levenshtein(t, s), "distance is symmetric")
	// "equal" is equality of the character sequences (for valid UTF-8 this is
	// string equality; distinct invalid bytes all read as U+FFFD).
	v.Assert((d == 0) == refSameRunes(s, t), "distance is zero exactly for equal strings")
}

func init() {
	vHarnesses["H_C20_lev"] = H_C20_lev
}
