//go:build verif

package flags

// H_C20_lev: unit harness - the library's distance function against the
// textbook definition, for all byte strings of the given lengths.
func H_C20_lev(v *V) {
	s := v.String(v.Shape("ls"))
	t := v.String(v.Shape("lt"))
	d := levenshtein(s, t)
	r := refLev(s, t)
	v.ObserveInt("d", d)
	v.Reach("done")
	v.Assert(d == r, "distance equals the true Levenshtein distance over characters")
	v.Assert(d == levenshtein(t, s), "distance is symmetric")
	// "equal" is equality of the character sequences (for valid UTF-8 this is
	// string equality; distinct invalid bytes all read as U+FFFD).
	v.Assert((d == 0) == refSameRunes(s, t), "distance is zero exactly for equal strings")
}

func init() {
	vHarnesses["H_C20_lev"] = H_C20_lev
}

type c20Cmd struct{}

// c20Sets: command-name sets (visible names, then one hidden name); several
// names at equal distance from likely inputs, a multi-byte name, a prefix pair.
var c20Sets = [][]string{
	{"add", "rm", "hide"},
	{"commit", "clone", "config", "hide"},
	{"ab", "ba", "bb", "zz"},
	{"é", "ee", "été", "zz"},
	{"list", "lists", "zz"},
	{"Zap", "add", "_sync", "hide"}, // byte order differs from case-folded order
}

// H_C20_suggest: the diagnostic for an unrecognised or missing command.
func H_C20_suggest(v *V) {
	set := c20Sets[v.Shape("set")]
	names := set[:len(set)-1]
	hidden := set[len(set)-1]
	p := NewNamedParser("prog", None)
	for _, n := range set {
		c, err := p.AddCommand(n, "", "", &c20Cmd{})
		if err != nil {
			v.Assume(false)
		}
		if n == hidden {
			c.Hidden = true
		}
	}
	// sorted visible names
	sorted := append([]string{}, names...)
	for i := 1; i < len(sorted); i++ {
		for j := i; j > 0 && sorted[j] < sorted[j-1]; j-- {
			sorted[j], sorted[j-1] = sorted[j-1], sorted[j]
		}
	}
	if v.Shape("lw") < 0 {
		_, err := p.ParseArgs(nil)
		t, typed := vErrType(err)
		v.Reach("missing")
		v.Assert(err != nil && typed && t == ErrCommandRequired, "a missing required command fails with ErrCommandRequired")
		if err != nil {
			c20Enumerates(v, err.Error(), sorted, hidden)
		}
		return
	}
	W := v.String(v.Shape("lw"))
	v.Assume(!refOptionSyntax(W) && !refIn(set, W))
	for i := 0; i < len(W); i++ {
		v.Assume(W[i] != '`' && W[i] != '\'')
	}
	// the hidden name must not occur in the given word (the word is echoed)
	v.Assume(!v.Contains(W, hidden))
	_, err := p.ParseArgs([]string{W})
	t, typed := vErrType(err)
	v.Assert(err != nil && typed && t == ErrUnknownCommand, "an unrecognised command fails with ErrUnknownCommand")
	if err == nil {
		return
	}
	msg := err.Error()
	// reference: first minimum of the true distance over the sorted visible names
	best, bestD := 0, refLev(W, sorted[0])
	for i := 1; i < len(sorted); i++ {
		if d := refLev(W, sorted[i]); d < bestD {
			best, bestD = i, d
		}
	}
	cand := sorted[best]
	nChars := len([]rune(cand))
	suggestChars := 2*bestD < nChars
	suggestBytes := 2*bestD < len(cand)
	v.ObserveStr("msg", msg)
	v.Assert(!v.Contains(msg, hidden), "hidden commands are never suggested or enumerated")
	if suggestChars && suggestBytes {
		v.Reach("suggest")
		v.Assert(v.Contains(msg, "did you mean `"+cand+"'"), "the nearest visible command (first minimum of the true edit distance) is suggested")
	} else if !suggestChars && !suggestBytes {
		v.Reach("enumerate")
		v.Assert(!v.Contains(msg, "did you mean"), "no suggestion unless the distance is less than half the name's length")
		c20Enumerates(v, msg, sorted, hidden)
	}
}

// c20Enumerates: every visible name occurs, in sorted order.
func c20Enumerates(v *V, msg string, sorted []string, hidden string) {
	v.Assert(!v.Contains(msg, hidden), "hidden commands are not enumerated")
	pos := -1
	tail := msg
	if i := refIndexStr(msg, "command"); i >= 0 {
		tail = msg[i:]
	}
	_ = pos
	off := 0
	for _, n := range sorted {
		i := refIndexStr(tail[off:], n)
		v.Assert(i >= 0, "all visible commands are enumerated in sorted order")
		if i < 0 {
			return
		}
		off += i + len(n)
	}
}

func init() {
	vHarnesses["H_C20_suggest"] = H_C20_suggest
}
