//go:build verif

package flags

// H_C20_lev: unit harness - the library's distance function against the
// textbook definition, for all byte strings of the given lengths.
func H_C20_lev(v *V) {
	s := v.String(v.Shape("ls"))
	t := v.String(v.Shape("lt"))
	d := levenshtein(s, t)
	r := refLev(s, t)
	v.ObserveInt("d", d)
	v.Reach("done")
	v.Assert(d == r, "distance equals the true Levenshtein distance over characters")
	v.Assert(d == levenshtein(t, s), "distance is symmetric")
	v.Assert((d == 0) == (s == t), "distance is zero exactly for equal strings")
}
