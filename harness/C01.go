//go:build verif

package flags

// C01 - option fields hold exactly what the command line denotes.

type c01Nested struct {
	NS string `long:"deep" short:"d"`
}
type c01Grp struct {
	GS    []string  `long:"list" short:"l"`
	Inner c01Nested `group:"Inner" namespace:"in"`
}
type c01Plain struct {
	PM map[string]string `long:"map" short:"m"`
}
type c01SubCmd struct {
	SI []int        `long:"nums" short:"n"`
	Cb func(string) `long:"call"`
}
type c01CmdGrp struct {
	CP *string `long:"ptr"`
}
type c01Cmd struct {
	CB  []bool    `short:"b"`
	CI  int       `long:"int" short:"i"`
	CG  c01CmdGrp `group:"CmdGrp" namespace:"cg"`
	Sub c01SubCmd `command:"sub"`
}
type c01Bare struct {
	X int
	Y string
}
type c01Root struct {
	F        bool   `short:"f" long:"flag"`
	S        string `short:"s" long:"str"`
	Fn       func() `long:"fn"`
	Untagged string
	// untagged pointers to option-less structs, after options: stay as they are
	BareNil *c01Bare
	BareSet *c01Bare
	NoFlag  string   `no-flag:"yes" long:"nf"`
	G       c01Grp   `group:"Grp" namespace:"g"`
	P       c01Plain `group:"Plain"`
	Cmd     c01Cmd   `command:"cmd" subcommands-optional:"y"`
}

type c01Opt struct {
	level       int
	short, long string // long uses '.' for the namespace delimiter
	kind        int    // 0 flag, 1 string, 2 func(), 3 []string, 4 map, 5 []bool, 6 int, 7 *string, 8 []int, 9 func(string)
}

var c01Opts = []c01Opt{
	{0, "f", "flag", 0},
	{0, "s", "str", 1},
	{0, "", "fn", 2},
	{0, "l", "g.list", 3},
	{0, "d", "g.in.deep", 1},
	{0, "m", "map", 4},
	{1, "b", "", 5},
	{1, "i", "int", 6},
	{1, "", "cg.ptr", 7},
	{2, "n", "nums", 8},
	{2, "", "call", 9},
}

func c01TakesArg(kind int) bool { return kind != 0 && kind != 2 && kind != 5 }

// H_C01_denote: n occurrences of symbolically chosen in-scope options in
// symbolically chosen spellings and positions.
func H_C01_denote(v *V) {
	n := v.Shape("n")
	same := v.Shape("same") == 1 // all occurrences mention one option, in one spelling, at its own level
	depth, cfg := 2, 0
	if !same {
		depth = v.Choice(3) // 0: no command, 1: cmd, 2: cmd sub
		// configuration variants (delimiter x parser options; not multiplied out)
		cfg = v.Choice(3)
	}
	delim := []string{".", "-", "."}[cfg]
	opts := []Options{None, HelpFlag | PassDoubleDash, IgnoreUnknown}[cfg]
	d := &c01Root{}
	d.Untagged = v.String(1)
	d.NoFlag = v.String(1)
	bareSet := &c01Bare{X: 7, Y: "y"}
	d.BareSet = bareSet
	untagged0, noflag0 := d.Untagged, d.NoFlag
	fnCalls := 0
	d.Fn = func() { fnCalls++ }
	var cbLog []string
	d.Cmd.Sub.Cb = func(s string) { cbLog = append(cbLog, s) }
	p := NewNamedParser("prog", opts)
	p.NamespaceDelimiter = delim
	p.AddGroup("Application Options", "", d)
	p.SubcommandsOptional = true

	type occurrence struct {
		oi, slot int
		V, key   string
	}
	var occs []occurrence
	occ := make([]int, len(c01Opts))
	last := make([]string, len(c01Opts))
	lists := make([][]string, len(c01Opts))
	mapKeys := []string{}
	mapExp := map[string]string{}
	slots := make([][]string, depth+1)
	fixed, fixedSp := -1, -1
	for k := 0; k < n; k++ {
		// choose an in-scope option
		var cand []int
		for i, o := range c01Opts {
			if o.level <= depth {
				cand = append(cand, i)
			}
		}
		oi := fixed
		if oi < 0 {
			oi = cand[v.Choice(len(cand))]
			if same {
				fixed = oi
			}
		}
		o := c01Opts[oi]
		long := o.long
		if delim == "-" {
			long = ""
			for i := 0; i < len(o.long); i++ {
				if o.long[i] == '.' {
					long += "-"
				} else {
					long += string(o.long[i])
				}
			}
		}
		slot := o.level
		if !same {
			slot = o.level + v.Choice(depth-o.level+1)
		}
		if !c01TakesArg(o.kind) {
			occs = append(occs, occurrence{oi: oi, slot: slot})
			tok := "--" + long
			if o.short != "" && (long == "" || (!same && v.Choice(2) == 1)) {
				tok = "-" + o.short
			}
			slots[slot] = append(slots[slot], tok)
			continue
		}
		// the value
		var V, mkey, mval string
		switch o.kind {
		case 6, 8:
			V = v.String(v.Shape("lv"))
			v.Assume(refSmallDecimal(V))
		case 4:
			key, val := v.String(1), v.String(v.Shape("lv"))
			v.Assume(key != ":" && key != "\"" && key != "-" && key != "=")
			V = key + ":" + val
			mkey, mval = key, val
		default:
			V = v.String(v.Shape("lv"))
		}
		v.Assume(!(len(V) > 0 && V[0] == '"'))
		// admissible spellings (C02 decides what they are; C01 does not re-judge them)
		var sps []int
		if o.short != "" {
			sps = append(sps, spShortAttached, spShortEq, spShortSep)
		}
		if long != "" {
			sps = append(sps, spLongEq, spLongSep)
		}
		sp := fixedSp
		if sp < 0 {
			sp = sps[v.Choice(len(sps))]
			if same {
				fixedSp = sp
			}
		}
		switch sp {
		case spShortAttached:
			v.Assume(len(V) > 0 && V[0] != '=')
		case spShortSep, spLongSep:
			v.Assume(!refOptionSyntax(V) && !(opts&PassDoubleDash != 0 && V == "--"))
		}
		slots[slot] = vRender(slots[slot], sp, o.short, long, V)
		if o.kind == 4 {
			occs = append(occs, occurrence{oi: oi, slot: slot, V: mval, key: mkey})
		} else {
			occs = append(occs, occurrence{oi: oi, slot: slot, V: V})
		}
	}
	// expectations follow command-line order: slot by slot, generation order within a slot
	for s := 0; s <= depth; s++ {
		for _, oc := range occs {
			if oc.slot != s {
				continue
			}
			occ[oc.oi]++
			if !c01TakesArg(c01Opts[oc.oi].kind) {
				continue
			}
			if c01Opts[oc.oi].kind == 4 {
				if _, seen := mapExp[oc.key]; !seen {
					mapKeys = append(mapKeys, oc.key)
				}
				mapExp[oc.key] = oc.V
				continue
			}
			last[oc.oi] = oc.V
			lists[oc.oi] = append(lists[oc.oi], oc.V)
		}
	}
	var argv []string
	argv = append(argv, slots[0]...)
	if depth >= 1 {
		argv = append(argv, "cmd")
		argv = append(argv, slots[1]...)
	}
	if depth >= 2 {
		argv = append(argv, "sub")
		argv = append(argv, slots[2]...)
	}
	rest, err := p.ParseArgs(argv)
	vObsErr(v, err)
	v.Assert(err == nil, "a vector of declared options in documented spellings parses")
	if err != nil {
		return
	}
	v.Reach("success")
	v.Assert(len(rest) == 0, "nothing remains")
	v.Assert(d.F == (occ[0] > 0), "a flag is true iff it occurred")
	v.Assert(v.EqStr(d.S, last[1]), "a scalar holds its last occurrence's argument")
	v.Assert(fnCalls == occ[2], "a callback without argument runs once per occurrence")
	v.Assert(v.EqStrs(d.G.GS, lists[3]), "a slice (namespaced group) holds one element per occurrence in order")
	v.Assert(v.EqStr(d.G.Inner.NS, last[4]), "a scalar in a nested namespaced group holds its last argument")
	v.Assert(len(d.P.PM) == len(mapKeys), "a map holds one entry per distinct key")
	for _, k := range mapKeys {
		x, ok := d.P.PM[k]
		v.Assert(ok && v.EqStr(x, mapExp[k]), "a map holds the last value given for each key")
	}
	v.Assert(len(d.Cmd.CB) == occ[6], "a bool slice gains one true per occurrence")
	for _, b := range d.Cmd.CB {
		v.Assert(b, "bool slice elements are true")
	}
	wantCI := 0
	if occ[7] > 0 {
		wantCI = refAtoiSmall(last[7])
	}
	v.Assert(d.Cmd.CI == wantCI, "an int option of a command holds the conversion of its last argument")
	if occ[8] > 0 {
		v.Assert(d.Cmd.CG.CP != nil && v.EqStr(*d.Cmd.CG.CP, last[8]), "a pointer option in a command's namespaced group holds its last argument")
	} else {
		v.Assert(d.Cmd.CG.CP == nil, "an unmentioned pointer option stays nil")
	}
	v.Assert(len(d.Cmd.Sub.SI) == occ[9], "an int slice of a sub-command has one element per occurrence")
	for i, x := range d.Cmd.Sub.SI {
		v.Assert(x == refAtoiSmall(lists[9][i]), "int slice elements are the converted arguments in order")
	}
	v.Assert(v.EqStrs(cbLog, lists[10]), "a callback runs once per occurrence, in order, with the argument")
	v.Assert(v.EqStr(d.Untagged, untagged0) && v.EqStr(d.NoFlag, noflag0), "fields without an option tag are never modified")
	v.Assert(d.BareNil == nil && d.BareSet == bareSet && bareSet.X == 7 && bareSet.Y == "y", "untagged pointer fields (nil or set) and what they point to are never modified")
}

func init() {
	vHarnesses["H_C01_denote"] = H_C01_denote
}
