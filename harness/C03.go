//go:build verif

package flags

// C03 - unconsumed arguments are conserved, in order.

type c03P0 struct {
	A bool   `short:"a" long:"aa"`
	B string `short:"b" long:"bb"`
}
type c03P1 struct {
	c03P0
	Pos struct{ X string } `positional-args:"y"`
}
type c03P2 struct {
	c03P0
	Pos struct {
		X string
		R []string
	} `positional-args:"y"`
}
type c03Cmd struct {
	D   bool `short:"d"`
	log *[]string
}

func (c *c03Cmd) Execute(a []string) error {
	*c.log = append([]string{"!"}, a...)
	return nil
}

type c03P3 struct {
	c03P0
	Cmd c03Cmd `command:"cmd"`
}

// H_C03_raw: k tokens of arbitrary bytes, four declaration shapes, all eight
// combinations of PassDoubleDash/IgnoreUnknown/PassAfterNonOption, against
// the reference parse.
func H_C03_raw(v *V) {
	variant := v.Shape("variant")
	opts := vOptions(v, PassDoubleDash, IgnoreUnknown, PassAfterNonOption)
	n := v.Shape("ntok")
	argv := make([]string, n)
	for i := range argv {
		argv[i] = v.String(v.Shape("len" + string(rune('0'+i))))
	}
	sp := refSpec{flags: []string{"-a", "--aa"}, argopts: []string{"-b", "--bb"}}
	var p *Parser
	var a *bool
	var b *string
	var cmdD *bool
	var pos func() []string
	var execLog []string
	switch variant {
	case 0:
		o := &c03P0{}
		p = NewNamedParser("prog", opts)
		p.AddGroup("Application Options", "", o)
		a, b = &o.A, &o.B
		pos = func() []string { return nil }
	case 1:
		sp.npos = 1
		o := &c03P1{}
		p = NewNamedParser("prog", opts)
		p.AddGroup("Application Options", "", o)
		a, b = &o.A, &o.B
		pos = func() []string { return []string{o.Pos.X} }
	case 2:
		sp.npos, sp.rest = 1, true
		o := &c03P2{}
		p = NewNamedParser("prog", opts)
		p.AddGroup("Application Options", "", o)
		a, b = &o.A, &o.B
		pos = func() []string { return append([]string{o.Pos.X}, o.Pos.R...) }
	case 3:
		sp.cmds = []string{"cmd"}
		sp.cmdFlags = []string{"-d"}
		o := &c03P3{}
		o.Cmd.log = &execLog
		p = NewNamedParser("prog", opts)
		p.AddGroup("Application Options", "", o)
		a, b = &o.A, &o.B
		cmdD = &o.Cmd.D
		pos = func() []string { return nil }
	}
	in := append([]string{}, argv...)
	rest, err := p.ParseArgs(in)
	ref := refParse(sp, opts, argv)
	v.Assume(!ref.skip)
	v.ObserveBool("ok", err == nil)
	v.Assert((err == nil) == ref.ok, "the parse succeeds exactly when the reference accepts the vector")
	if err == nil && ref.ok {
		v.Reach("success")
		v.ObserveStrs("rest", rest)
		v.Assert(v.EqStrs(rest, ref.rest), "remaining arguments are exactly the unconsumed tokens in order")
		want := ref.pos
		if variant == 1 || variant == 2 {
			// the first positional is observed as a plain field ("" when unfilled)
			if len(want) == 0 {
				want = []string{""}
			}
		}
		v.Assert(v.EqStrs(pos(), want), "positional arguments receive the passed-through tokens first")
		if cmdD == nil {
			v.Assert(*a == ref.a, "flag value")
		} else {
			v.Assert((*a || *cmdD) == ref.a, "flag value")
		}
		v.Assert(v.EqStr(*b, ref.b), "option value")
		if variant == 3 {
			v.Assert(v.EqStrs(execLog, append([]string{"!"}, ref.rest...)), "the executed command receives exactly the remaining arguments")
		}
	} else {
		v.Reach("error")
	}
}

// H_C03_items: vectors built from k items of symbolic class (known flag,
// option with attached / separate value, cluster, plain word, unknown short
// and long option, unknown member in a cluster, terminator, command word,
// empty string) with symbolic filler bytes, against the reference parse.
func H_C03_items(v *V) {
	variant := v.Shape("variant")
	k := v.Shape("k")
	opts := PassDoubleDash | vOptions(v, IgnoreUnknown, PassAfterNonOption)
	var argv []string
	for i := 0; i < k; i++ {
		switch v.Choice(11) {
		case 0:
			argv = append(argv, "-a")
		case 1:
			x := v.String(1)
			v.Assume(x[0] != '"')
			argv = append(argv, "--bb="+x)
		case 2:
			x := v.String(1)
			v.Assume(x[0] != '"' && x[0] != '-')
			argv = append(argv, "-b", x)
		case 3:
			argv = append(argv, "-aa")
		case 4:
			w := v.String(1)
			v.Assume(w[0] != '-')
			argv = append(argv, "w"+w)
		case 5:
			argv = append(argv, "-x")
		case 6:
			argv = append(argv, "--zz")
		case 7:
			argv = append(argv, "-ax")
		case 8:
			argv = append(argv, "--")
		case 9:
			argv = append(argv, "cmd")
		case 10:
			argv = append(argv, "")
		}
	}
	sp := refSpec{flags: []string{"-a", "--aa"}, argopts: []string{"-b", "--bb"}}
	var p *Parser
	var pos func() []string
	var execLog []string
	switch variant {
	case 0:
		o := &c03P0{}
		p = NewNamedParser("prog", opts)
		p.AddGroup("Application Options", "", o)
		pos = func() []string { return nil }
	case 1:
		sp.npos = 1
		o := &c03P1{}
		p = NewNamedParser("prog", opts)
		p.AddGroup("Application Options", "", o)
		pos = func() []string { return []string{o.Pos.X} }
	case 2:
		sp.npos, sp.rest = 1, true
		o := &c03P2{}
		p = NewNamedParser("prog", opts)
		p.AddGroup("Application Options", "", o)
		pos = func() []string { return append([]string{o.Pos.X}, o.Pos.R...) }
	case 3:
		sp.cmds = []string{"cmd"}
		sp.cmdFlags = []string{"-d"}
		o := &c03P3{}
		o.Cmd.log = &execLog
		p = NewNamedParser("prog", opts)
		p.AddGroup("Application Options", "", o)
		pos = func() []string { return nil }
	}
	rest, err := p.ParseArgs(append([]string{}, argv...))
	ref := refParse(sp, opts, argv)
	v.Assume(!ref.skip)
	v.ObserveBool("ok", err == nil)
	v.Assert((err == nil) == ref.ok, "the parse succeeds exactly when the reference accepts the vector")
	if err != nil || !ref.ok {
		v.Reach("error")
		return
	}
	v.Reach("success")
	v.ObserveStrs("rest", rest)
	v.Assert(v.EqStrs(rest, ref.rest), "remaining arguments are exactly the unconsumed tokens in order")
	want := ref.pos
	if (variant == 1 || variant == 2) && len(want) == 0 {
		want = []string{""}
	}
	v.Assert(v.EqStrs(pos(), want), "positional arguments receive the passed-through tokens first")
	if variant == 3 {
		v.Assert(v.EqStrs(execLog, append([]string{"!"}, ref.rest...)), "the executed command receives exactly the remaining arguments")
	}
}

func init() {
	vHarnesses["H_C03_raw"] = H_C03_raw
	vHarnesses["H_C03_items"] = H_C03_items
}
