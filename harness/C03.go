//go:build verif

package flags

type declC03a struct {
	A bool   `short:"a" long:"aa"`
	B bool   `short:"b"`
	S string `short:"s" long:"ss"`
}

// H_C03_raw: k tokens of arbitrary bytes against the reference classifier.
func H_C03_raw(v *V) {
	var d declC03a
	opts := Options(0)
	if v.Bool() {
		opts |= PassDoubleDash
	}
	p := NewNamedParser("prog", opts)
	p.AddGroup("Application Options", "", &d)
	n := v.Shape("ntok")
	argv := make([]string, n)
	for i := range argv {
		argv[i] = v.String(v.Shape("len"))
	}
	rest, err := p.ParseArgs(argv)
	if err == nil {
		v.Reach("success")
		v.ObserveStrs("rest", rest)
		v.ObserveStr("S", d.S)
	} else {
		v.Reach("error")
		v.ObserveStr("err", err.Error())
	}
}

func init() {
	vHarnesses["H_C03_raw"] = H_C03_raw
}
