//go:build verif

package flags

import (
	"bytes"
	"time"
)

// C12 - INI write/read round trip.

type c12Inner struct {
	IS string `long:"is"`
	S  string `long:"is2"` // the same field name as an option of the enclosing group
}
type c12CmdGrp struct {
	GS string `long:"gs"`
}
type c12Cmd struct {
	CS string    `long:"cs"`
	CL []string  `long:"cl"`
	CG c12CmdGrp `group:"Cmd Group"`
}
type c12Decl struct {
	S     string            `long:"str" description:"a string"`
	Named string            `long:"named" ini-name:"custom"`
	L     []string          `long:"list"`
	M     map[string]string `long:"mss"`
	MI    map[string]int    `long:"msi"`
	H     int               `long:"hex" base:"16"`
	U     uint8             `long:"u8"`
	I64   int64             `long:"i64"`
	U64   uint64            `long:"u64"`
	HU    uint32            `long:"hu" base:"16"`
	B     bool              `long:"bb"`
	F     float64           `long:"flt"`
	Du    time.Duration     `long:"dur"`
	D     string            `long:"dflt" default:"dv"`
	PS    *string           `long:"ps"`
	LD    []string          `long:"ld" default:"" default:""`
	NoIni string            `long:"noini" no-ini:"true"`
	Hid   string            `long:"hid" hidden:"true"`
	Inner c12Inner          `group:"Inner"`
	Cmd   c12Cmd            `command:"cmd"`
}

func c12Parser() (*Parser, *c12Decl) {
	d := &c12Decl{}
	p := NewNamedParser("prog", None)
	p.AddGroup("Application Options", "", d)
	p.SubcommandsOptional = true
	return p, d
}

// c12Key: a map key the key:value syntax can express - non-empty, no ':',
// no white space at either end.
func c12Key(v *V, n int) string {
	k := v.String(n)
	for i := 0; i < len(k); i++ {
		v.Assume(k[i] != ':')
	}
	rs := []rune(k)
	v.Assume(len(rs) > 0 && !refIsSpace(rs[0]) && !refIsSpace(rs[len(rs)-1]))
	return k
}

func H_C12_roundtrip(v *V) {
	field := v.Shape("field")
	lv := v.Shape("lv")
	opts := IniOptions(0)
	if v.Shape("oneopt") == 1 {
		// a single write-option set (used for the longest values)
		opts = IniIncludeDefaults
	} else if v.Shape("oneopt") == 2 {
		// only options that differ from their defaults are written
		opts = IniNone
	} else {
		switch v.Choice(4) {
		case 1:
			opts = IniIncludeDefaults
		case 2:
			opts = IniIncludeDefaults | IniCommentDefaults
		case 3:
			opts = IniIncludeComments
		}
		if v.Choice(2) == 1 {
			opts |= IniIncludeComments
		}
	}
	p1, d1 := c12Parser()
	p1.ParseArgs(nil)
	switch field {
	case 0:
		d1.S = v.String(lv)
	case 1:
		d1.Named = v.String(lv)
	case 2:
		d1.L = []string{v.String(lv), v.String(1)}
	case 3:
		k := c12Key(v, 1)
		if v.Known("c12_map_key_unrepresentable") {
			v.Assume(k[0] != '"' && k[0] != '\n')
		}
		d1.M = map[string]string{k: v.String(lv)}
	case 4:
		k := c12Key(v, lv)
		if v.Known("c12_map_key_unrepresentable") {
			v.Assume(k[0] != '"')
			for i := 0; i < len(k); i++ {
				v.Assume(k[i] != '\n')
			}
		}
		d1.MI = map[string]int{k: []int{0, -7, 1 << 40}[v.Choice(3)]}
	case 5:
		d1.H = []int{0, 255, -4096, 1<<63 - 1, -1 << 63}[v.Choice(5)]
		d1.U = []uint8{0, 9, 255}[v.Choice(3)]
		d1.I64 = []int64{0, -1, 1<<63 - 1, -1 << 63}[v.Choice(4)]
		d1.B = v.Choice(2) == 1
	case 13:
		d1.U64 = []uint64{0, 1 << 63, 1<<64 - 1, 1<<63 - 1}[v.Choice(4)]
		d1.HU = []uint32{0, 1 << 31, 1<<32 - 1}[v.Choice(3)]
	case 6:
		d1.F = []float64{0, 1.5, -2.25e-9, 1e300}[v.Choice(4)]
		d1.Du = []time.Duration{0, 1500 * time.Millisecond, -3 * time.Hour}[v.Choice(3)]
	case 7:
		d1.D = v.String(lv)
	case 8:
		d1.Inner.IS = v.String(lv)
		d1.Inner.S = "in" + v.String(1)
		d1.S = "out"
	case 9:
		d1.Cmd.CS = v.String(lv)
		d1.Cmd.CL = []string{v.String(1)}
	case 10:
		d1.Cmd.CG.GS = v.String(lv)
	case 11:
		// a pointer option: unset, or set (possibly to the empty string)
		if v.Choice(2) == 1 {
			x := v.String(lv)
			d1.PS = &x
		}
	case 12:
		// a slice option with two (empty) defaults holding one or two other elements
		d1.LD = []string{v.String(lv)}
		if v.Shape("oneopt") == 0 && v.Choice(2) == 1 {
			d1.LD = append(d1.LD, v.String(1))
		}
	}
	var buf bytes.Buffer
	NewIniParser(p1).Write(&buf, opts)
	text := buf.String()
	v.ObserveStr("ini", text)
	p2, d2 := c12Parser()
	err := NewIniParser(p2).Parse(bytes.NewReader([]byte(text)))
	if err == nil {
		_, err = p2.ParseArgs(nil)
	}
	v.Assert(err == nil, "the written text is read back without error")
	if err != nil {
		return
	}
	v.Reach("read-back")
	v.Assert(v.EqStr(d2.S, d1.S) && v.EqStr(d2.Named, d1.Named) && v.EqStr(d2.D, d1.D), "string options are reproduced exactly (surrounding blanks, quotes, control and non-ASCII bytes, empty)")
	v.Assert(v.EqStrs(d2.L, d1.L), "slices are reproduced exactly")
	v.Assert(v.EqStrs(d2.LD, d1.LD), "a slice with declared defaults is reproduced exactly (also when its text rendering coincides with the defaults')")
	v.Assert((d2.PS == nil) == (d1.PS == nil) && (d1.PS == nil || d2.PS == nil || v.EqStr(*d2.PS, *d1.PS)), "a pointer option is reproduced exactly (unset stays unset, empty stays empty)")
	v.Assert(len(d2.M) == len(d1.M) && len(d2.MI) == len(d1.MI), "maps keep their entries")
	for k, x := range d1.M {
		y, ok := d2.M[k]
		v.Assert(ok && v.EqStr(x, y), "map values are reproduced exactly")
	}
	for k, x := range d1.MI {
		y, ok := d2.MI[k]
		v.Assert(ok && x == y, "integer map values are reproduced exactly")
	}
	v.Assert(d2.H == d1.H && d2.U == d1.U && d2.I64 == d1.I64 && d2.B == d1.B && d2.U64 == d1.U64 && d2.HU == d1.HU, "numbers in every base and booleans are reproduced exactly")
	v.Assert(d2.F == d1.F && d2.Du == d1.Du, "floats and durations are reproduced exactly")
	v.Assert(v.EqStr(d2.Inner.IS, d1.Inner.IS) && v.EqStr(d2.Inner.S, d1.Inner.S) && v.EqStr(d2.Cmd.CS, d1.Cmd.CS) && v.EqStrs(d2.Cmd.CL, d1.Cmd.CL) && v.EqStr(d2.Cmd.CG.GS, d1.Cmd.CG.GS), "options of nested groups and commands are reproduced exactly")
}

// H_C12_long: values longer than the reader's line buffer round-trip.
func H_C12_long(v *V) {
	L := v.Shape("L")
	fill := make([]byte, L)
	for i := range fill {
		fill[i] = byte('a' + i%23)
		if i%9 == 8 {
			fill[i] = ' '
		}
	}
	tail := v.String(1)
	p1, d1 := c12Parser()
	p1.ParseArgs(nil)
	d1.S = "s" + string(fill) + tail
	d1.L = []string{"l" + string(fill) + "z", "y"}
	var buf bytes.Buffer
	NewIniParser(p1).Write(&buf, IniNone)
	p2, d2 := c12Parser()
	err := NewIniParser(p2).Parse(bytes.NewReader(buf.Bytes()))
	if err == nil {
		_, err = p2.ParseArgs(nil)
	}
	vObsErr(v, err)
	v.Assert(err == nil, "the written text is read back without error")
	if err != nil {
		return
	}
	v.Reach("read-back")
	v.Assert(len(d2.S) == len(d1.S) && v.EqStr(d2.S, d1.S), "a long string value is reproduced exactly")
	v.Assert(v.EqStrs(d2.L, d1.L), "long slice elements are reproduced exactly")
}

func init() {
	vHarnesses["H_C12_long"] = H_C12_long
	vHarnesses["H_C12_roundtrip"] = H_C12_roundtrip
}
