//go:build verif

package flags

// C10 - positional arguments bind in declaration order.

type c10A struct {
	F   bool   `short:"f"`
	S   string `short:"s" long:"str"`
	Pos struct {
		P1 string
		P2 int
		P3 string
	} `positional-args:"yes"`
}
type c10B struct {
	F   bool   `short:"f"`
	S   string `short:"s" long:"str"`
	Pos struct {
		P1   string
		Rest []string
	} `positional-args:"yes"`
}
type c10CCmd struct {
	G   bool `short:"g"`
	Pos struct {
		Q1   string
		Nums []int `base:"16"` // digits are read in the field's own base
	} `positional-args:"yes"`
}
type c10C struct {
	F   bool    `short:"f"`
	S   string  `short:"s" long:"str"`
	Cmd c10CCmd `command:"cmd"`
}

type c10DSub struct {
	G bool `short:"g"`
}
type c10D struct {
	F   bool   `short:"f"`
	S   string `short:"s" long:"str"`
	Pos struct {
		P1   string
		Rest []string
	} `positional-args:"yes"`
	Rm c10DSub `command:"rm" alias:"r"`
}

// c10Int: the value a digit string denotes for the int fields of declaration
// decl (declaration 2 reads them in base 16).
func c10Int(decl int, w string) int {
	if decl != 2 {
		return refAtoiSmall(w)
	}
	n := 0
	for i := 0; i < len(w); i++ {
		n = n*16 + int(w[i]-'0')
	}
	return n
}

// H_C10_bind: n words interleaved with options and an optional terminator.
func H_C10_bind(v *V) {
	decl := v.Shape("decl")
	n := v.Shape("n")
	lw := v.Shape("lw")
	words := make([]string, n)
	for i := range words {
		words[i] = v.String(lw)
	}
	// one word may be the empty string (a genuine, empty token)
	if ew := v.Shape("ew"); ew >= 0 && ew < n {
		words[ew] = ""
	}
	// terminator after word index `term` (n = no terminator); words after it may look like options
	term := n
	if v.Choice(2) == 1 {
		term = v.Choice(n + 1)
	}
	intField := func(i int) bool { return (decl == 0 && i == 1) || (decl == 2 && i >= 1) }
	for i, w := range words {
		if i < term {
			v.Assume(!refOptionSyntax(w) && w != "--")
			if decl == 2 {
				v.Assume(w != "cmd")
			}
		}
		if intField(i) {
			v.Assume(refSmallDecimal(w))
		}
	}
	// options interleaved: a flag before word fpos, an argument option before word spos
	fpos, spos := -1, -1
	if v.Choice(2) == 1 {
		fpos = v.Choice(term + 1)
	}
	sp := 0
	if v.Choice(2) == 1 {
		spos = v.Choice(term + 1)
		sp = v.Choice(spCount)
	}
	var argv []string
	if decl == 2 {
		argv = append(argv, "cmd")
	}
	for i := 0; i <= n; i++ {
		if i == fpos {
			argv = append(argv, "-f")
		}
		if i == spos {
			argv = vRender(argv, sp, "s", "str", "val")
		}
		if i == term && term < n {
			argv = append(argv, "--")
		}
		if i < n {
			argv = append(argv, words[i])
		}
	}
	if term == n && v.Choice(2) == 1 && n > 0 {
		// a trailing terminator with nothing after it
		argv = append(argv, "--")
	}
	p := NewNamedParser("prog", PassDoubleDash)
	var rest []string
	var err error
	var got []string
	var gotF bool
	var gotS string
	nfields := 0
	hasSlice := false
	switch decl {
	case 0:
		d := &c10A{}
		p.AddGroup("Application Options", "", d)
		rest, err = p.ParseArgs(argv)
		got = []string{d.Pos.P1, refItoa(d.Pos.P2), d.Pos.P3}
		gotF, gotS = d.F, d.S
		nfields = 3
	case 1:
		d := &c10B{}
		p.AddGroup("Application Options", "", d)
		rest, err = p.ParseArgs(argv)
		got = append([]string{d.Pos.P1}, d.Pos.Rest...)
		gotF, gotS = d.F, d.S
		nfields, hasSlice = 1, true
	case 2:
		d := &c10C{}
		p.AddGroup("Application Options", "", d)
		rest, err = p.ParseArgs(argv)
		got = []string{d.Cmd.Pos.Q1}
		for _, x := range d.Cmd.Pos.Nums {
			got = append(got, refItoa(x))
		}
		gotF, gotS = d.F, d.S
		nfields, hasSlice = 1, true
	case 3:
		// the command has positionals and a subcommand: words (which may spell the
		// subcommand's name or alias) fill the positionals first
		d := &c10D{}
		p.AddGroup("Application Options", "", d)
		p.SubcommandsOptional = true
		rest, err = p.ParseArgs(argv)
		got = append([]string{d.Pos.P1}, d.Pos.Rest...)
		gotF, gotS = d.F, d.S
		nfields, hasSlice = 1, true
		v.Assert(p.Active == nil, "a word that fills a positional does not select a command")
	}
	vObsErr(v, err)
	v.Assert(err == nil, "plain words, known options and the terminator parse")
	if err != nil {
		return
	}
	v.Reach("success")
	v.ObserveStrs("got", got)
	var want, wantRest []string
	for i := 0; i < nfields; i++ {
		if i < n {
			if intField(i) {
				want = append(want, refItoa(c10Int(decl, words[i])))
			} else {
				want = append(want, words[i])
			}
		} else if !hasSlice || i < nfields {
			if intField(i) {
				want = append(want, "0")
			} else {
				want = append(want, "")
			}
		}
	}
	for i := nfields; i < n; i++ {
		if hasSlice {
			if intField(i) {
				want = append(want, refItoa(c10Int(decl, words[i])))
			} else {
				want = append(want, words[i])
			}
		} else {
			wantRest = append(wantRest, words[i])
		}
	}
	v.Assert(v.EqStrs(got, want), "the i-th word fills the i-th positional field; a trailing slice absorbs the rest in order")
	v.Assert(v.EqStrs(rest, wantRest), "tokens beyond the declared fields become remaining arguments")
	v.Assert(gotF == (fpos >= 0), "an interleaved flag is still recognised")
	wantS := ""
	if spos >= 0 {
		wantS = "val"
	}
	v.Assert(v.EqStr(gotS, wantS), "an interleaved option keeps its argument")
}

type c10P struct {
	F   bool `short:"f"`
	Pos struct {
		First  string
		Second string
	} `positional-args:"yes"`
}

// H_C10_pano: PassDoubleDash together with PassAfterNonOption. Options are
// recognised until the first plain word or the terminator; from a plain word
// on every token (the terminator too) is passed through verbatim, after the
// terminator every token but the terminator itself - first to the positional
// fields, then to the remaining arguments.
func H_C10_pano(v *V) {
	n := v.Shape("n")
	var argv []string
	var passed []string
	passing := false
	wantF := false
	for i := 0; i < n; i++ {
		var tok string
		switch v.Choice(5) {
		case 4:
			// three dashes and more are not an option prefix: a plain word
			w := v.String(1)
			v.Assume(w != "-")
			tok = "---" + w
		case 0:
			tok = "-f"
		case 1:
			tok = "--"
		case 2:
			w := v.String(1)
			v.Assume(w != "-")
			tok = "w" + w
		case 3:
			tok = "-" + v.String(1) // option-looking; only ever reached in pass-through mode
			if !passing {
				v.Assume(false)
			}
		}
		argv = append(argv, tok)
		switch {
		case passing:
			passed = append(passed, tok)
		case tok == "-f":
			wantF = true
		case tok == "--":
			passing = true
		default:
			passing = true
			passed = append(passed, tok)
		}
	}
	d := &c10P{}
	p := NewNamedParser("prog", PassDoubleDash|PassAfterNonOption)
	p.AddGroup("Application Options", "", d)
	rest, err := p.ParseArgs(argv)
	vObsErr(v, err)
	v.Assert(err == nil, "flags, the terminator and passed-through tokens parse")
	if err != nil {
		return
	}
	v.Reach("success")
	get := func(i int) string {
		if i < len(passed) {
			return passed[i]
		}
		return ""
	}
	var wantRest []string
	if len(passed) > 2 {
		wantRest = passed[2:]
	}
	v.Assert(v.EqStr(d.Pos.First, get(0)) && v.EqStr(d.Pos.Second, get(1)), "passed-through tokens bind to the positional fields in order, verbatim")
	v.Assert(v.EqStrs(rest, wantRest), "tokens beyond the declared fields become remaining arguments")
	v.Assert(d.F == wantF, "a flag before the first plain word / terminator is recognised, later ones are passed through")
}

type c10Deploy struct {
	G   bool `short:"g"`
	Pos struct {
		Target string
		Count  int
	} `positional-args:"yes"`
}
type c10Two struct {
	F   bool `short:"f"`
	Pos struct {
		Profile string
	} `positional-args:"yes"`
	Deploy c10Deploy `command:"deploy"`
}

// H_C10_twolevel: the parser declares positional fields and so does a
// subcommand; words before the command word fill the parser's fields, words
// after it the command's own fields, each list from its first field on.
func H_C10_twolevel(v *V) {
	W0, W1, W3 := v.String(1), v.String(1), v.String(1)
	v.Assume(W0 != "-" && W1 != "-" && W3 != "-")
	N := v.String(1)
	v.Assume(N[0] >= '0' && N[0] <= '9')
	argv := []string{"p" + W0}
	if v.Choice(2) == 1 {
		argv = append(argv, "-f")
	}
	argv = append(argv, "deploy")
	nAfter := v.Choice(4)
	after := []string{"t" + W1, N, "e" + W3}[:nAfter]
	for i, w := range after {
		if i == 1 && v.Choice(2) == 1 {
			argv = append(argv, "-g")
		}
		argv = append(argv, w)
	}
	d := &c10Two{}
	p := NewNamedParser("prog", PassDoubleDash)
	p.AddGroup("Application Options", "", d)
	rest, err := p.ParseArgs(argv)
	vObsErr(v, err)
	v.Assert(err == nil, "words for the parser's and the command's positional fields parse")
	if err != nil {
		return
	}
	v.Reach("success")
	v.Assert(v.EqStr(d.Pos.Profile, "p"+W0), "the word before the command word fills the parser's field")
	wantT, wantC := "", 0
	var wantRest []string
	if nAfter >= 1 {
		wantT = "t" + W1
	}
	if nAfter >= 2 {
		wantC = int(N[0] - '0')
	}
	if nAfter >= 3 {
		wantRest = []string{"e" + W3}
	}
	v.Assert(v.EqStr(d.Deploy.Pos.Target, wantT) && d.Deploy.Pos.Count == wantC, "words after the command word fill the command's own fields from the first one on")
	v.Assert(v.EqStrs(rest, wantRest), "tokens beyond the declared fields become remaining arguments")
}

func init() {
	vHarnesses["H_C10_twolevel"] = H_C10_twolevel
	vHarnesses["H_C10_pano"] = H_C10_pano
	vHarnesses["H_C10_bind"] = H_C10_bind
}
