//go:build verif

package flags

// C06 - required options and argument counts are enforced.

type c06Log struct{ runs int }

type c06Sub struct {
	E   bool `short:"e"`
	log *c06Log
}
type c06Cmd1 struct {
	C   bool   `short:"c"`
	D   string `long:"delta"`
	Sub c06Sub `command:"sub"`
	log *c06Log
}
type c06Cmd2 struct {
	F   bool `short:"f"`
	log *c06Log
}
type c06Root struct {
	A  string  `long:"alpha"`
	B  bool    `short:"b"`
	C1 c06Cmd1 `command:"one" subcommands-optional:"yes"`
	C2 c06Cmd2 `command:"two"`
}

func (c *c06Sub) Execute(a []string) error  { c.log.runs++; return nil }
func (c *c06Cmd1) Execute(a []string) error { c.log.runs++; return nil }
func (c *c06Cmd2) Execute(a []string) error { c.log.runs++; return nil }

// H_C06_required: any subset of the options is required (marked through the
// public model), any subset is supplied, any command path is named.
func H_C06_required(v *V) {
	log := &c06Log{}
	r := &c06Root{}
	r.C1.log, r.C1.Sub.log, r.C2.log = log, log, log
	p := NewNamedParser("prog", None)
	p.AddGroup("Application Options", "", r)
	p.SubcommandsOptional = true
	// option table: marker (as rendered in messages), level (0 root, 1 one, 2 sub, 3 two)
	type od struct {
		marker string
		level  int
		toks   [][]string // spellings
	}
	ods := []od{
		{"--alpha", 0, [][]string{{"--alpha", "x"}, {"--alpha=x"}}},
		{"-b", 0, [][]string{{"-b"}}},
		{"-c", 1, [][]string{{"-c"}}},
		{"--delta", 1, [][]string{{"--delta=y"}, {"--delta", "y"}}},
		{"-e", 2, [][]string{{"-e"}}},
		{"-f", 3, [][]string{{"-f"}}},
	}
	optOf := []*Option{
		p.FindOptionByLongName("alpha"), p.FindOptionByShortName('b'),
		p.Find("one").FindOptionByShortName('c'), p.Find("one").FindOptionByLongName("delta"),
		p.Find("one").Find("sub").FindOptionByShortName('e'), p.Find("two").FindOptionByShortName('f'),
	}
	req := make([]bool, len(ods))
	// required options may be hidden from the help: they are demanded all the same
	hideReq := v.Choice(2) == 1
	for i := range ods {
		req[i] = v.Choice(2) == 1
		optOf[i].Required = req[i]
		if hideReq && req[i] {
			optOf[i].Hidden = true
		}
	}
	path := v.Choice(4) // 0: none, 1: one, 2: one sub, 3: two
	active := func(level int) bool {
		switch level {
		case 0:
			return true
		case 1:
			return path == 1 || path == 2
		case 2:
			return path == 2
		}
		return path == 3
	}
	sup := make([]bool, len(ods))
	var lvlToks [4][]string
	// the first supplied option may be given twice (a repeated occurrence
	// must not stand in for another, missing, required option)
	dup := v.Choice(2) == 1
	for i, o := range ods {
		if !active(o.level) {
			continue // an option of a command that is not named cannot be supplied
		}
		if v.Choice(2) == 1 {
			sup[i] = true
			lvlToks[o.level] = append(lvlToks[o.level], o.toks[v.Choice(len(o.toks))]...)
			if dup {
				lvlToks[o.level] = append(lvlToks[o.level], o.toks[0]...)
				dup = false
			}
		}
	}
	cluster := false
	if sup[1] && sup[2] && path >= 1 && path <= 2 && v.Choice(2) == 1 {
		// -b (root) and -c (one) supplied as one cluster after the command word
		cluster = true
	}
	// an empty-string argument right after the last command word (it is an
	// ordinary remaining argument and must not stop the parse)
	emptyWord := v.Choice(2) == 1
	var argv []string
	add := func(level int) {
		if emptyWord && ((level == 0 && path == 0) || (level == 1 && path == 1) || (level == 2 && path == 2) || (level == 3 && path == 3)) {
			argv = append(argv, "")
		}
		for _, t := range lvlToks[level] {
			if cluster && (t == "-b" || t == "-c") {
				continue
			}
			argv = append(argv, t)
		}
	}
	add(0)
	switch path {
	case 1:
		argv = append(argv, "one")
		add(1)
	case 2:
		argv = append(argv, "one")
		add(1)
		argv = append(argv, "sub")
		add(2)
	case 3:
		argv = append(argv, "two")
		add(3)
	}
	if cluster {
		argv = append(argv, "-bc")
	}
	_, err := p.ParseArgs(argv)
	vObsErr(v, err)
	missingAny := false
	for i, o := range ods {
		if req[i] && active(o.level) && !sup[i] {
			missingAny = true
		}
	}
	if !missingAny {
		v.Reach("satisfied")
		v.Assert(err == nil, "the parse succeeds when every required option of the active chain is supplied")
		v.Assert(log.runs == (map[bool]int{true: 1, false: 0})[path != 0], "the command runs once after success")
		return
	}
	v.Reach("missing")
	t, typed := vErrType(err)
	v.Assert(err != nil && typed && t == ErrRequired, "a missing required option fails with ErrRequired")
	v.Assert(log.runs == 0, "nothing is executed when a required option is missing")
	if err == nil {
		return
	}
	msg := err.Error()
	for i, o := range ods {
		isMissing := req[i] && active(o.level) && !sup[i]
		v.Assert(v.Contains(msg, "`"+o.marker+"'") == isMissing, "the message names exactly the missing required options")
	}
}

type c06P1 struct {
	O   bool `short:"o"`
	Pos struct {
		First  string
		Second string
	} `positional-args:"yes" required:"yes"`
}
type c06P2 struct {
	O   bool `short:"o"`
	Pos struct {
		First string
		Rest  []string `required:"2"`
	} `positional-args:"yes"`
}
type c06P3 struct {
	O   bool `short:"o"`
	Pos struct {
		Rest []string `required:"1-2"`
	} `positional-args:"yes"`
}
type c06P4 struct {
	O   bool `short:"o"`
	Pos struct {
		First string
		Rest  []string
	} `positional-args:"yes"`
}
type c06P5 struct {
	O   bool `short:"o"`
	Pos struct {
		First  string `required:"yes"`
		Second string
	} `positional-args:"yes"`
}

type c06P6 struct {
	O   bool `short:"o"`
	R   bool `short:"r" long:"rr" required:"true"`
	Pos struct {
		First  string
		Second string
	} `positional-args:"yes" required:"yes"`
}

// H_C06_positional: positional count constraints (required, N, N-M).
func H_C06_positional(v *V) {
	decl := v.Shape("decl")
	n := v.Choice(5) // number of plain words supplied
	term := -1       // a terminator before word index term (PassDoubleDash is set)
	if v.Choice(2) == 1 {
		term = v.Choice(n + 1)
	}
	var argv []string
	for i := 0; i < n; i++ {
		if i == term {
			argv = append(argv, "--")
		}
		if i == 1 && term != 0 && term != 1 && v.Choice(2) == 1 {
			argv = append(argv, "-o")
		}
		w := v.String(1)
		v.Assume(w != "-")
		argv = append(argv, "w"+w)
	}
	if term == n {
		argv = append(argv, "--")
	}
	p := NewNamedParser("prog", PassDoubleDash)
	var okWant bool
	var named, notNamed []string
	if decl == 6 {
		// a required option beside required positionals: a missing option is
		// what the message names; the positionals only when no option is missing
		supplied := v.Choice(2) == 1
		if supplied {
			argv = append([]string{"-r"}, argv...)
		}
		p.AddGroup("Application Options", "", &c06P6{})
		okWant = supplied && n >= 2
		switch {
		case !supplied:
			named, notNamed = []string{"rr"}, []string{"First", "Second"}
		case n == 0:
			named, notNamed = []string{"First", "Second"}, []string{"rr"}
		case n == 1:
			named, notNamed = []string{"Second"}, []string{"First", "rr"}
		}
	}
	switch decl {
	case 1:
		p.AddGroup("Application Options", "", &c06P1{})
		okWant = n >= 2
		if n == 0 {
			named = []string{"First", "Second"}
		} else if n == 1 {
			named, notNamed = []string{"Second"}, []string{"First"}
		}
	case 2:
		p.AddGroup("Application Options", "", &c06P2{})
		okWant = n >= 3
		named, notNamed = []string{"Rest"}, []string{"First"}
	case 3:
		p.AddGroup("Application Options", "", &c06P3{})
		okWant = n >= 1 && n <= 2
		named = []string{"Rest"}
	case 4:
		p.AddGroup("Application Options", "", &c06P4{})
		okWant = true
	case 5:
		p.AddGroup("Application Options", "", &c06P5{})
		okWant = n >= 1
		named, notNamed = []string{"First"}, []string{"Second"}
	}
	_, err := p.ParseArgs(argv)
	vObsErr(v, err)
	if okWant {
		v.Reach("met")
		v.Assert(err == nil, "the parse succeeds when the positional count constraints are met")
		return
	}
	v.Reach("unmet")
	t, typed := vErrType(err)
	v.Assert(err != nil && typed && t == ErrRequired, "an unmet positional constraint fails with ErrRequired")
	if err != nil {
		for _, s := range named {
			v.Assert(v.Contains(err.Error(), s), "the message names the unmet positional argument")
		}
		for _, s := range notNamed {
			v.Assert(!v.Contains(err.Error(), s), "the message does not name a satisfied positional argument")
		}
	}
}

var c06Ran int

type c06PSub struct {
	Pos struct {
		Name string `required:"yes"`
	} `positional-args:"yes"`
}

func (c *c06PSub) Execute(args []string) error { c06Ran++; return nil }

type c06PC0 struct {
	V   bool `short:"v"`
	Pos struct {
		Files []string `required:"1-2"`
	} `positional-args:"yes"`
	Add c06PSub `command:"add"`
}
type c06PC1 struct {
	V   bool `short:"v"`
	Pos struct {
		First string `required:"yes"`
	} `positional-args:"yes"`
	Add c06PSub `command:"add"`
}
type c06PC2 struct {
	V   bool `short:"v"`
	Pos struct {
		N []string `required:"2"`
	} `positional-args:"yes"`
	Add c06PSub `command:"add"`
}

// H_C06_poscmd: a command that declares per-field positional constraints AND
// a subcommand: a word spelling the subcommand's name does not excuse the
// parent's unmet positional arguments.
func H_C06_poscmd(v *V) {
	decl := v.Shape("decl")
	k := v.Choice(4)
	var words []string
	var argv []string
	for i := 0; i < k; i++ {
		if v.Choice(2) == 1 {
			words = append(words, "add")
		} else {
			w := v.String(1)
			v.Assume(w != "-")
			words = append(words, "w"+w)
		}
		if i == 0 && v.Choice(2) == 1 {
			argv = append(argv, "-v")
		}
		argv = append(argv, words[i])
	}
	c06Ran = 0
	p := NewNamedParser("prog", PassDoubleDash)
	p.SubcommandsOptional = true
	var okWant bool
	var filled func() int
	switch decl {
	case 0:
		d := &c06PC0{}
		p.AddGroup("Application Options", "", d)
		okWant = k >= 1 && k <= 2
		filled = func() int { return len(d.Pos.Files) }
	case 1:
		d := &c06PC1{}
		p.AddGroup("Application Options", "", d)
		okWant = k >= 1 && (k == 1 || words[1] != "add" || k >= 3)
		filled = func() int {
			if d.Pos.First != "" {
				return 1
			}
			return 0
		}
	case 2:
		d := &c06PC2{}
		p.AddGroup("Application Options", "", d)
		okWant = k >= 2
		filled = func() int { return len(d.Pos.N) }
	}
	_, err := p.ParseArgs(argv)
	vObsErr(v, err)
	v.ObserveInt("filled", filled())
	if err == nil {
		v.Reach("success")
		n := filled()
		switch decl {
		case 0:
			v.Assert(n >= 1 && n <= 2, "a parse succeeds only if the parent command's positional count constraint (1-2) is met")
		case 1:
			v.Assert(n == 1, "a parse succeeds only if the parent command's required positional argument was supplied")
		case 2:
			v.Assert(n >= 2, "a parse succeeds only if the parent command's positional count constraint (2) is met")
		}
	}
	v.Assert((err == nil) == okWant, "the words fill the parent's positional arguments before any of them can name a subcommand")
	if err != nil {
		v.Reach("unmet")
		t, typed := vErrType(err)
		v.Assert(typed && t == ErrRequired, "an unmet positional constraint fails with ErrRequired")
		v.Assert(c06Ran == 0, "nothing is executed when a positional constraint is unmet")
	}
}

func init() {
	vHarnesses["H_C06_poscmd"] = H_C06_poscmd
	vHarnesses["H_C06_required"] = H_C06_required
	vHarnesses["H_C06_positional"] = H_C06_positional
}
