//go:build verif

package flags

// vSetTermWidth is replaced by the pty-based implementation in replay builds.
var vSetTermWidthHook func(v *V, w int)

func vSetTermWidth(v *V, w int) {
	if vSetTermWidthHook != nil {
		vSetTermWidthHook(v, w)
	}
}
