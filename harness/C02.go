//go:build verif

package flags

import "strconv"

// C02 - all documented spellings of an option occurrence are interchangeable.

type c02StrX struct {
	X string `short:"x" long:"nm"`
	F bool   `short:"f" long:"ff"`
}
type c02StrE struct {
	X string `short:"é" long:"nm"`
	F bool   `short:"f" long:"ff"`
}
type c02StrEuro struct {
	X string `short:"€" long:"nm"`
	F bool   `short:"f" long:"ff"`
}
type c02Str3 struct {
	X string `short:"3" long:"nm"`
	F bool   `short:"f" long:"ff"`
}
type c02IntX struct {
	X int  `short:"x" long:"nm"`
	F bool `short:"f" long:"ff"`
}
type c02SliceX struct {
	X []string `short:"x" long:"nm"`
	F bool     `short:"f" long:"ff"`
}
type c02MapX struct {
	X map[string]string `short:"x" long:"nm"`
	F bool              `short:"f" long:"ff"`
}
type c02NoUnqX struct {
	X string `short:"x" long:"nm" unquote:"false"`
	F bool   `short:"f" long:"ff"`
}

type c02HexX struct {
	X int  `short:"x" long:"nm" base:"16"`
	F bool `short:"f" long:"ff"`
}

type c02OptX struct {
	X string `short:"x" long:"nm" optional:"yes" optional-value:"OV"`
	F bool   `short:"f" long:"ff"`
}

type c02Out struct {
	errNil  bool
	typed   bool
	etype   ErrorType
	msg     string
	rest    []string
	val     string
	vals    []string
	ival    int
	flag    bool
	mapLen  int
	mapVals []string
}

// c02Run parses argv with a fresh parser over declaration kind k.
func c02Run(k int, opts Options, argv []string, mapKeys []string) c02Out {
	var o c02Out
	p := NewNamedParser("prog", opts)
	var rest []string
	var err error
	switch k {
	case 0:
		var d c02StrX
		p.AddGroup("Application Options", "", &d)
		rest, err = p.ParseArgs(argv)
		o.val, o.flag = d.X, d.F
	case 1:
		var d c02StrE
		p.AddGroup("Application Options", "", &d)
		rest, err = p.ParseArgs(argv)
		o.val, o.flag = d.X, d.F
	case 2:
		var d c02StrEuro
		p.AddGroup("Application Options", "", &d)
		rest, err = p.ParseArgs(argv)
		o.val, o.flag = d.X, d.F
	case 3:
		var d c02Str3
		p.AddGroup("Application Options", "", &d)
		rest, err = p.ParseArgs(argv)
		o.val, o.flag = d.X, d.F
	case 4:
		var d c02IntX
		p.AddGroup("Application Options", "", &d)
		rest, err = p.ParseArgs(argv)
		o.ival, o.flag = d.X, d.F
	case 5:
		var d c02SliceX
		p.AddGroup("Application Options", "", &d)
		rest, err = p.ParseArgs(argv)
		o.vals, o.flag = d.X, d.F
	case 6:
		var d c02MapX
		p.AddGroup("Application Options", "", &d)
		rest, err = p.ParseArgs(argv)
		o.flag = d.F
		o.mapLen = len(d.X)
		for _, k := range mapKeys {
			if x, ok := d.X[k]; ok {
				o.mapVals = append(o.mapVals, "+"+x)
			} else {
				o.mapVals = append(o.mapVals, "-")
			}
		}
	case 7:
		var d c02NoUnqX
		p.AddGroup("Application Options", "", &d)
		rest, err = p.ParseArgs(argv)
		o.val, o.flag = d.X, d.F
	case 8:
		var d c02HexX
		p.AddGroup("Application Options", "", &d)
		rest, err = p.ParseArgs(argv)
		o.ival, o.flag = d.X, d.F
	case 9:
		var d c02OptX
		p.AddGroup("Application Options", "", &d)
		rest, err = p.ParseArgs(argv)
		o.val, o.flag = d.X, d.F
	}
	o.rest = rest
	o.errNil = err == nil
	if err != nil {
		o.etype, o.typed = vErrType(err)
		o.msg = err.Error()
	}
	return o
}

var c02Shorts = []string{"x", "é", "€", "3", "x", "x", "x", "x", "x", "x"}

// c02Admissible: the spelling denotes (option, V) under the documented grammar.
func c02Admissible(v *V, sp int, kind int, opts Options, V string) bool {
	switch sp {
	case spShortAttached:
		return len(V) > 0 && V[0] != '='
	case spShortSep, spLongSep:
		if kind == 9 {
			// an option with an optional argument takes it in attached form only
			return false
		}
		if opts&PassDoubleDash != 0 && V == "--" {
			return false
		}
		if refOptionSyntax(V) {
			return (kind == 4 || kind == 8) && refNegNumber(V)
		}
		return true
	}
	return true
}

// H_C02_pair: two spellings of the same occurrence, same surroundings, must
// give the same outcome.
func H_C02_pair(v *V) {
	kind := v.Shape("kind")
	V := v.String(v.Shape("lv"))
	// every spelling is compared with the canonical --name=V (always
	// admissible); interchangeability of all pairs follows by transitivity
	s1 := spLongEq
	s2 := v.Choice(spCount - 1)
	if s2 >= spLongEq {
		s2++
	}
	opts := vOptions(v, PassDoubleDash)
	v.Assume(c02Admissible(v, s1, kind, opts, V))
	v.Assume(c02Admissible(v, s2, kind, opts, V))
	// surroundings: nothing / a flag / a plain word, before and after
	pre := v.Choice(3)
	post := v.Choice(3)
	build := func(sp int) []string {
		var argv []string
		switch pre {
		case 1:
			argv = append(argv, "-f")
		case 2:
			argv = append(argv, "w")
		}
		argv = vRender(argv, sp, c02Shorts[kind], "nm", V)
		switch post {
		case 1:
			argv = append(argv, "--ff")
		case 2:
			argv = append(argv, "z")
		}
		return argv
	}
	var keys []string
	if kind == 6 {
		// observe the map through the key the value denotes (text before the first ':')
		keys = []string{refMapKey(V)}
	}
	a := c02Run(kind, opts, build(s1), keys)
	b := c02Run(kind, opts, build(s2), keys)
	if a.errNil {
		v.Reach("success")
	} else {
		v.Reach("error")
	}
	v.ObserveBool("errNil", a.errNil)
	v.ObserveStr("val", a.val)
	v.Assert(a.errNil == b.errNil, "both spellings succeed or both fail")
	v.Assert(a.typed == b.typed && a.etype == b.etype, "both spellings give the same error type")
	v.Assert(v.EqStr(a.msg, b.msg), "both spellings give the same error message")
	v.Assert(v.EqStr(a.val, b.val), "both spellings store the same value")
	v.Assert(a.ival == b.ival, "both spellings store the same integer")
	v.Assert(v.EqStrs(a.vals, b.vals), "both spellings store the same slice")
	v.Assert(a.mapLen == b.mapLen && v.EqStrs(a.mapVals, b.mapVals), "both spellings store the same map")
	v.Assert(a.flag == b.flag, "both spellings leave the other flag alike")
	if a.errNil && b.errNil {
		// what a failed parse hands back as unparsed arguments is not part of
		// the outcome the property speaks of (remaining arguments are defined
		// on success)
		v.Assert(v.EqStrs(a.rest, b.rest), "both spellings leave the same remaining arguments")
	}
}

// H_C02_optional: the documented exception - an option with an optional
// argument given in the separate-token form takes its optional value and
// leaves the next token alone.
func H_C02_optional(v *V) {
	V := v.String(v.Shape("lv"))
	v.Assume(!refOptionSyntax(V) && V != "--")
	long := v.Choice(2) == 1
	last := v.Choice(2) == 1
	var argv []string
	if long {
		argv = []string{"--nm"}
	} else {
		argv = []string{"-x"}
	}
	if !last {
		argv = append(argv, V)
	}
	o := c02Run(9, None, argv, nil)
	v.Reach("success")
	v.Assert(o.errNil, "an option with an optional argument parses without one")
	v.Assert(v.EqStr(o.val, "OV"), "without an attached argument the optional value is stored")
	if last {
		v.Assert(len(o.rest) == 0, "nothing remains")
	} else {
		v.Assert(v.EqStrs(o.rest, []string{V}), "the following token is not consumed as the argument; it remains")
	}
}

// H_C02_quoted: V written as a double-quoted Go string literal, in every
// spelling, is interchangeable with the plain --name=V.
func H_C02_quoted(v *V) {
	kind := v.Shape("kind")
	V := v.String(v.Shape("lv"))
	// a plain V that itself starts with a quote would be read as a literal
	v.Assume(!(len(V) > 0 && V[0] == '"'))
	Q := strconv.Quote(V)
	sp := v.Choice(spCount)
	opts := vOptions(v, PassDoubleDash)
	post := v.Choice(2)
	build := func(sp int, val string) []string {
		argv := vRender(nil, sp, c02Shorts[kind], "nm", val)
		if post == 1 {
			argv = append(argv, "z")
		}
		return argv
	}
	var keys []string
	if kind == 6 {
		keys = []string{refMapKey(V)}
	}
	a := c02Run(kind, opts, build(spLongEq, V), keys)
	b := c02Run(kind, opts, build(sp, Q), keys)
	if a.errNil {
		v.Reach("success")
	} else {
		v.Reach("error")
	}
	v.ObserveStr("val", b.val)
	if kind == 7 {
		// unquote:"false" is the documented opt-out: the literal is kept verbatim
		v.Assert(b.errNil && v.EqStr(b.val, Q), "with unquote:\"false\" a quoted literal is stored verbatim")
		return
	}
	v.Assert(a.errNil == b.errNil, "the quoted literal and the plain value both succeed or both fail")
	v.Assert(a.typed == b.typed && a.etype == b.etype, "the quoted literal gives the same error type")
	v.Assert(v.EqStr(a.val, b.val) && a.ival == b.ival && v.EqStrs(a.vals, b.vals), "the quoted literal stores the same value")
	v.Assert(a.mapLen == b.mapLen && v.EqStrs(a.mapVals, b.mapVals), "the quoted literal stores the same map entry")
	if a.errNil && b.errNil {
		v.Assert(v.EqStrs(a.rest, b.rest), "the quoted literal leaves the same remaining arguments")
	}
}

type c02Cluster struct {
	A bool   `short:"a"`
	B bool   `short:"b"`
	C bool   `short:"é"` // a multi-byte member
	D string `short:"d"`
}

func c02RunCluster(opts Options, argv []string) (c02Cluster, []string, error) {
	var d c02Cluster
	p := NewNamedParser("prog", opts)
	p.AddGroup("Application Options", "", &d)
	rest, err := p.ParseArgs(argv)
	return d, rest, err
}

// H_C02_cluster: -abc is interchangeable with -a -b -c (and with a trailing
// argument-taking member, attached or separate).
func H_C02_cluster(v *V) {
	// a cluster of n members drawn from a, b, é (symbolic choice per position)
	n := v.Shape("n")
	names := []string{"a", "b", "é"}
	cluster := "-"
	var split []string
	for i := 0; i < n; i++ {
		m := names[v.Choice(3)]
		cluster += m
		split = append(split, "-"+m)
	}
	// 0: flags only, 1: + argument-taking d as last member with a separate V.
	// (An attached argument after a non-first cluster member is documented as
	// unsupported - pinned by TestShortMultiArgConcatFail - and is not a spelling.)
	form := v.Choice(2)
	V := v.String(v.Shape("lv"))
	var a1, a2 []string
	switch form {
	case 0:
		a1 = []string{cluster}
		a2 = split
	case 1:
		v.Assume(!refOptionSyntax(V))
		a1 = []string{cluster + "d", V}
		a2 = append(split, "-d", V)
	}
	post := v.Choice(2)
	if post == 1 {
		a1 = append(a1, "w")
		a2 = append(a2, "w")
	}
	d1, r1, e1 := c02RunCluster(None, a1)
	d2, r2, e2 := c02RunCluster(None, a2)
	if e1 == nil {
		v.Reach("success")
	} else {
		v.Reach("error")
	}
	v.ObserveStr("D", d1.D)
	v.Assert((e1 == nil) == (e2 == nil), "cluster and separate flags both succeed or both fail")
	t1, k1 := vErrType(e1)
	t2, k2 := vErrType(e2)
	v.Assert(t1 == t2 && k1 == k2, "cluster and separate flags give the same error type")
	v.Assert(d1.A == d2.A && d1.B == d2.B && d1.C == d2.C, "cluster and separate flags set the same flags")
	v.Assert(v.EqStr(d1.D, d2.D), "cluster and separate flags store the same argument")
	if e1 == nil && e2 == nil {
		v.Assert(v.EqStrs(r1, r2), "cluster and separate flags leave the same remaining arguments")
	}
}

func init() {
	vHarnesses["H_C02_pair"] = H_C02_pair
	vHarnesses["H_C02_cluster"] = H_C02_cluster
	vHarnesses["H_C02_quoted"] = H_C02_quoted
	vHarnesses["H_C02_optional"] = H_C02_optional
}
