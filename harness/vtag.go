//go:build verif

package flags

import "reflect"

// vTagged returns a pointer to a fresh struct of the given shape whose field
// tags are the given (possibly symbolic) texts:
//
//	"s"  struct{ F string `tags[0]` }
//	"b"  struct{ F bool `tags[0]` }
//	"bs" struct{ F []bool `tags[0]` }
//	"fn" struct{ F func() `tags[0]` }
//	"ss" struct{ F1 string `tags[0]`; F2 string `tags[1]` }
//	"g"  struct{ G struct{ X string `long:"x"` } `tags[0]` }
//	"gg" struct{ G1 struct{ X string `tags[1]` } `tags[0]`; G2 struct{ Y string `tags[3]` } `tags[2]` }
//	"c"  struct{ C struct{ Y bool `long:"y"` } `tags[0]` }
//	"p"  struct{ P struct{ A string `tags[1]` } `tags[0]` }
//
// Under gosymx the call is intercepted (the reflect model serves the tag
// texts for the predeclared types below); natively the type is built with
// reflect.StructOf.
func vTagged(v *V, shape string, tags []string) interface{} {
	str, bl := reflect.TypeOf(""), reflect.TypeOf(false)
	f := func(name string, t reflect.Type, tag string) reflect.StructField {
		return reflect.StructField{Name: name, Type: t, Tag: reflect.StructTag(tag)}
	}
	var t reflect.Type
	switch shape {
	case "s":
		t = reflect.StructOf([]reflect.StructField{f("F", str, tags[0])})
	case "b":
		t = reflect.StructOf([]reflect.StructField{f("F", bl, tags[0])})
	case "bs":
		t = reflect.StructOf([]reflect.StructField{f("F", reflect.TypeOf([]bool{}), tags[0])})
	case "fn":
		t = reflect.StructOf([]reflect.StructField{f("F", reflect.TypeOf(func() {}), tags[0])})
	case "ss":
		t = reflect.StructOf([]reflect.StructField{f("F1", str, tags[0]), f("F2", str, tags[1])})
	case "g":
		in := reflect.StructOf([]reflect.StructField{f("X", str, `long:"x"`)})
		t = reflect.StructOf([]reflect.StructField{f("G", in, tags[0])})
	case "gg":
		in1 := reflect.StructOf([]reflect.StructField{f("X", str, tags[1])})
		in2 := reflect.StructOf([]reflect.StructField{f("Y", str, tags[3])})
		t = reflect.StructOf([]reflect.StructField{f("G1", in1, tags[0]), f("G2", in2, tags[2])})
	case "c":
		in := reflect.StructOf([]reflect.StructField{f("Y", bl, `long:"y"`)})
		t = reflect.StructOf([]reflect.StructField{f("C", in, tags[0])})
	case "p":
		in := reflect.StructOf([]reflect.StructField{f("A", str, tags[1])})
		t = reflect.StructOf([]reflect.StructField{f("P", in, tags[0])})
	default:
		panic("vTagged: unknown shape " + shape)
	}
	return reflect.New(t).Interface()
}

// predeclared shapes used by the engine's intercept of vTagged
type vTS struct{ F string }
type vTB struct{ F bool }
type vTBS struct{ F []bool }
type vTFN struct{ F func() }
type vTSS struct {
	F1 string
	F2 string
}
type vTGi struct {
	X string `long:"x"`
}
type vTG struct{ G vTGi }
type vTGG1 struct{ X string }
type vTGG2 struct{ Y string }
type vTGG struct {
	G1 vTGG1
	G2 vTGG2
}
type vTCi struct {
	Y bool `long:"y"`
}
type vTC struct{ C vTCi }
type vTPi struct{ A string }
type vTP struct{ P vTPi }

var vTaggedProtos = []interface{}{&vTBS{}, &vTFN{}, &vTS{}, &vTB{}, &vTSS{}, &vTG{}, &vTGG{}, &vTC{}, &vTP{}}
