//go:build verif

package flags

// C07 - unknown options are never silently accepted.

type c07N struct {
	Nab bool `long:"ab"`
}
type c07C struct {
	Cd bool `long:"cd" short:"k"`
}
type c07D struct {
	Dd bool `long:"dd" short:"j"`
}
type c07Decl struct {
	Ab  bool   `long:"ab" short:"a"`
	Abc string `long:"abc"`
	E   bool   `short:"é"`
	N   c07N   `group:"N group" namespace:"n"`
	C   c07C   `command:"c"`
	D   c07D   `command:"d"`
}

// c07InlineLen: the handler policy gets a two-byte inline argument (long
// enough to be a quoted literal, which must reach the handler verbatim).
func c07InlineLen(policy int) int {
	if policy == 2 {
		return 2
	}
	return 1
}

// H_C07_unknown: an option-looking token whose name is not in scope at its
// position, under each of the three policies.
func H_C07_unknown(v *V) {
	form := v.Shape("form")     // 0: --N  1: --N=A  2: -R  3: -R=A  4: -aR (cluster)
	policy := v.Shape("policy") // 0: none  1: IgnoreUnknown  2: handler
	afterCmd := v.Choice(2) == 1
	longScope := []string{"ab", "abc", "n.ab"}
	shortScope := []string{"a", "é"}
	if afterCmd {
		longScope = append(longScope, "cd")
		shortScope = append(shortScope, "k")
	}
	var U, name, inline string
	hasInline := false
	switch form {
	case 0, 1:
		N := v.String(v.Shape("ln"))
		v.Assume(len(N) > 0 && N[0] != '-' && refIndexByte(N, '=') < 0)
		v.Assume(!refIn(longScope, N))
		name = N
		U = "--" + N
		if form == 1 {
			inline = v.String(c07InlineLen(policy))
			hasInline = true
			U += "=" + inline
		}
	case 2, 3, 4:
		R := v.String(v.Shape("ln"))
		v.Assume(refOneRune(R) && R != "-" && R != "=")
		v.Assume(!refIn(shortScope, R))
		name = R
		U = "-" + R
		if form == 3 {
			inline = v.String(c07InlineLen(policy))
			hasInline = true
			U += "=" + inline
		}
		if form == 4 {
			U = "-a" + R
		}
	}
	var d c07Decl
	opts := Options(0)
	if policy == 1 {
		opts |= IgnoreUnknown
	}
	if policy != 0 && v.Choice(2) == 1 {
		// an ignored / handled unknown option is not a "first non-option"
		opts |= PassAfterNonOption
	}
	p := NewNamedParser("prog", opts)
	p.AddGroup("Application Options", "", &d)
	p.SubcommandsOptional = true
	calls := 0
	var gotName, gotVal string
	gotHas := false
	var gotArgs []string
	inject := false
	if policy == 2 {
		inject = v.Choice(2) == 1
		p.UnknownOptionHandler = func(option string, arg SplitArgument, args []string) ([]string, error) {
			calls++
			gotName = option
			gotVal, gotHas = arg.Value()
			gotArgs = append([]string{}, args...)
			if inject {
				return append([]string{"--abc", "zz"}, args...), nil
			}
			return args, nil
		}
	}
	var argv []string
	if v.Choice(2) == 1 {
		argv = append(argv, "--n.ab")
	}
	if afterCmd {
		argv = append(argv, "c")
	}
	argv = append(argv, U)
	tail := []string{}
	// a known option right after the unknown one: parsing continues, so it is parsed
	knownAfter := policy != 0 && v.Choice(2) == 1
	if knownAfter {
		tail = append(tail, "--abc=q")
	}
	if v.Choice(2) == 1 {
		tail = append(tail, "w")
	}
	if !afterCmd && v.Choice(2) == 1 {
		tail = append([]string{"c", "--cd"}, tail...)
	}
	if policy == 0 {
		// a later token that would itself fail (or ask for help) must not
		// replace the diagnosis of the first unknown option
		switch v.Choice(4) {
		case 1:
			tail = append(tail, "--abc")
		case 2:
			tail = append(tail, "--qq")
		case 3:
			v.Assume(name != "help" && name != "h" && name != "?")
			p.Options |= HelpFlag
			tail = append(tail, "--help")
		}
	}
	argv = append(argv, tail...)
	rest, err := p.ParseArgs(argv)
	vObsErr(v, err)
	switch policy {
	case 0:
		v.Reach("rejected")
		t, typed := vErrType(err)
		v.Assert(err != nil && typed && t == ErrUnknownFlag, "an unknown option fails with ErrUnknownFlag")
		if err != nil {
			v.Assert(v.Contains(err.Error(), "`"+name+"'"), "the error names the unknown option (the first one)")
		}
	case 1:
		v.Assert(err == nil, "IgnoreUnknown: the parse succeeds")
		if err == nil {
			v.Reach("ignored")
			want := []string{U}
			for _, t := range tail {
				switch t {
				case "w":
					want = append(want, "w")
				case "c", "--cd":
					// the unknown token is a remaining argument, so a later `c` is an
					// ordinary argument and --cd is unknown in the parser's context
					want = append(want, t)
				}
			}
			v.Assert(v.EqStrs(rest, want), "IgnoreUnknown: the token is passed through verbatim and parsing continues")
			wantAbc := ""
			if knownAfter {
				wantAbc = "q"
			}
			v.Assert(v.EqStr(d.Abc, wantAbc), "IgnoreUnknown: options after the unknown one are still parsed")
		}
	case 2:
		v.Assert(calls == 1, "the handler is called exactly once for the unknown option")
		if calls == 1 {
			v.Reach("handled")
			if form != 4 {
				v.Assert(v.EqStr(gotName, name), "the handler receives the option name")
			}
			v.Assert(gotHas == hasInline && v.EqStr(gotVal, inline), "the handler receives the inline argument, if any")
			v.Assert(v.EqStrs(gotArgs, tail), "the handler receives exactly the not-yet-consumed arguments")
			v.Assert(err == nil, "parsing continues after the handler")
			if err == nil {
				wantAbc := ""
				if inject {
					wantAbc = "zz"
				}
				if knownAfter {
					wantAbc = "q" // the later occurrence wins
				}
				v.Assert(v.EqStr(d.Abc, wantAbc), "the slice returned by the handler is what is parsed next")
				cmdLater := len(tail) > 0 && tail[0] == "c"
				v.Assert(d.C.Cd == cmdLater, "tokens after the unknown option are still parsed")
			}
		}
	}
}

func init() {
	vHarnesses["H_C07_unknown"] = H_C07_unknown
}
