//go:build verif

package flags

// C08 - command selection and option scoping.

type c08Sub struct {
	Z bool `short:"z" long:"zz"`
	X bool `long:"xx"`
}
type c08Oth struct {
	O bool `short:"o"`
}
type c08Add struct {
	Y   bool   `short:"y" long:"yy"`
	X   bool   `long:"xx"`
	Sub c08Sub `command:"sub" alias:"s1" alias:"s2"`
	Oth c08Oth `command:"oth"`
}

// the intermediate command is executable: that does not excuse a missing
// required subcommand
var c08AddRuns int

func (c *c08Add) Execute(args []string) error { c08AddRuns++; return nil }

type c08Rm struct {
	R bool `short:"r"`
}
type c08Root struct {
	V   bool   `short:"v" long:"vv"`
	X   bool   `long:"xx"`
	Add c08Add `command:"add" alias:"a" alias:"plus"`
	Rm  c08Rm  `command:"rm" alias:"remove"`
}

// H_C08_tree: command words (by name or alias) with every level's flag at a
// symbolic position.
func H_C08_tree(v *V) {
	r := &c08Root{}
	p := NewNamedParser("prog", None)
	p.AddGroup("Application Options", "", r)
	addOptional := v.Choice(2) == 1
	if addOptional {
		p.Find("add").SubcommandsOptional = true
	}
	if v.Choice(2) == 1 {
		// hidden subcommands resolve and are required like visible ones
		p.Find("add").Find("sub").Hidden = true
		p.Find("add").Find("oth").Hidden = true
	}
	// the named path
	path := v.Choice(5) // 0: none, 1: add, 2: add sub, 3: add oth, 4: rm
	var words []string
	switch path {
	case 1, 2, 3:
		words = append(words, []string{"add", "a", "plus"}[v.Choice(3)])
		if path == 2 {
			words = append(words, []string{"sub", "s1", "s2"}[v.Choice(3)])
		} else if path == 3 {
			words = append(words, "oth")
		}
	case 4:
		words = append(words, []string{"rm", "remove"}[v.Choice(2)])
	}
	depth := len(words)
	// one flag per level of the chain, each at a slot >= its level
	type fl struct {
		tok   string
		level int
	}
	flags := []fl{{[]string{"-v", "--vv"}[v.Choice(2)], 0}}
	if path >= 1 && path <= 3 {
		flags = append(flags, fl{"-y", 1})
	}
	if path == 2 {
		flags = append(flags, fl{"--zz", 2})
	}
	if path == 3 {
		flags = append(flags, fl{"-o", 2})
	}
	if path == 4 {
		flags = append(flags, fl{"-r", 1})
	}
	early := -1 // index of a flag deliberately placed before its command word
	if depth > 0 && v.Choice(2) == 1 {
		early = 1 + v.Choice(len(flags)-1)
	}
	slots := make([][]string, depth+1)
	for i, f := range flags {
		var s int
		if i == early {
			s = v.Choice(f.level) // a slot before the level's word
		} else {
			s = f.level + v.Choice(depth-f.level+1)
		}
		slots[s] = append(slots[s], f.tok)
	}
	// the clashing long option --xx at a symbolic slot
	xxSlot := -1
	if v.Choice(2) == 1 {
		xxSlot = v.Choice(depth + 1)
		slots[xxSlot] = append(slots[xxSlot], "--xx")
	}
	var argv []string
	argv = append(argv, slots[0]...)
	for i, w := range words {
		argv = append(argv, w)
		argv = append(argv, slots[i+1]...)
	}
	c08AddRuns = 0
	_, err := p.ParseArgs(argv)
	vObsErr(v, err)
	t, typed := vErrType(err)
	if early >= 0 {
		v.Reach("early")
		v.Assert(err != nil && typed && t == ErrUnknownFlag, "an option of a command is unknown before the command's name")
		return
	}
	complete := path == 2 || path == 3 || path == 4 || (path == 1 && addOptional)
	if !complete {
		v.Reach("incomplete")
		v.Assert(err != nil && typed && t == ErrCommandRequired, "a required command that is not given fails with ErrCommandRequired")
		v.Assert(c08AddRuns == 0, "an executable command with a missing required subcommand is not run")
		return
	}
	v.Assert(err == nil, "a complete command path with in-scope options parses")
	if err != nil {
		return
	}
	v.Reach("success")
	// active chain
	var chain []string
	for c := p.Active; c != nil; c = c.Active {
		chain = append(chain, c.Name)
	}
	var wantChain []string
	switch path {
	case 1:
		wantChain = []string{"add"}
	case 2:
		wantChain = []string{"add", "sub"}
	case 3:
		wantChain = []string{"add", "oth"}
	case 4:
		wantChain = []string{"rm"}
	}
	v.Assert(v.EqStrs(chain, wantChain), "the active chain is the named path (aliases interchangeable)")
	v.Assert(r.V, "an ancestor's option is accepted at every later position")
	v.Assert(r.Add.Y == (path >= 1 && path <= 3), "the command's own option is set")
	v.Assert(r.Add.Sub.Z == (path == 2) && r.Add.Oth.O == (path == 3) && r.Rm.R == (path == 4), "the innermost command's option is set")
	// name clash: the innermost declaration at the option's position wins
	wantRoot, wantAdd, wantSub := false, false, false
	if xxSlot >= 0 {
		switch {
		case xxSlot == 0 || path == 4:
			wantRoot = true
		case xxSlot == 1 || path == 3:
			wantAdd = true
		default:
			wantSub = true
		}
	}
	v.Assert(r.X == wantRoot && r.Add.X == wantAdd && r.Add.Sub.X == wantSub, "with clashing names the innermost declaration in scope wins and outer fields stay untouched")
}

// H_C08_word: an undeclared word where a command may stand.
func H_C08_word(v *V) {
	r := &c08Root{}
	p := NewNamedParser("prog", None)
	p.AddGroup("Application Options", "", r)
	level := v.Choice(2) // 0: at the root, 1: after `add`
	optional := v.Choice(2) == 1
	W := v.String(v.Shape("lw"))
	v.Assume(!refOptionSyntax(W))
	var argv []string
	// tokens after the word: nothing, a plain word, or the root's flag and a plain word
	tailKind := v.Choice(3)
	if tailKind != 2 {
		argv = append(argv, "-v")
	}
	if level == 0 {
		p.SubcommandsOptional = optional
		v.Assume(W != "add" && W != "a" && W != "plus" && W != "rm" && W != "remove")
		argv = append(argv, W)
	} else {
		p.Find("add").SubcommandsOptional = optional
		v.Assume(W != "sub" && W != "s1" && W != "s2" && W != "oth")
		argv = append(argv, "add", "-y", W)
	}
	wantRest := []string{W}
	switch tailKind {
	case 1:
		argv = append(argv, "x")
		wantRest = append(wantRest, "x")
	case 2:
		argv = append(argv, "-v", "x")
		wantRest = append(wantRest, "x")
	}
	rest, err := p.ParseArgs(argv)
	vObsErr(v, err)
	t, typed := vErrType(err)
	if !optional {
		v.Reach("required")
		v.Assert(err != nil && typed && t == ErrUnknownCommand, "an unrecognised word where a command is required fails with ErrUnknownCommand")
		return
	}
	v.Reach("optional")
	v.Assert(err == nil, "with optional subcommands the word is an ordinary argument")
	if err == nil {
		v.Assert(v.EqStrs(rest, wantRest), "the word is the first remaining argument and the tokens after it are still parsed")
		v.Assert(r.V && (level == 0 || r.Add.Y), "options before and after the word are set")
		inner := p.Active
		if level == 1 && inner != nil {
			inner = inner.Active
		}
		v.Assert(inner == nil, "no command becomes active for the word")
	}
}

type c08AccSub struct {
	F bool `short:"f"`
}
type c08AccAdd struct {
	G   bool      `short:"g"`
	Sub c08AccSub `command:"sub"`
}
type c08Acc struct {
	T   []string       `short:"t" long:"tag"`
	L   map[string]int `short:"l"`
	N   int            `short:"n"`
	Add c08AccAdd      `command:"add" subcommands-optional:"y"`
}

// H_C08_accum: an ancestor's slice / map / scalar option given on both sides
// of command words accumulates exactly as if all occurrences stood together.
func H_C08_accum(v *V) {
	depth := 1 + v.Choice(2)
	words := []string{"add", "sub"}[:depth]
	var argv []string
	var wantT []string
	wantL := 0
	wantN := 0
	k := 0
	for slot := 0; slot <= depth; slot++ {
		if slot > 0 {
			argv = append(argv, words[slot-1])
		}
		switch v.Choice(4) {
		case 1:
			x := "x" + v.String(1)
			argv = append(argv, "-t", x)
			wantT = append(wantT, x)
		case 2:
			k++
			argv = append(argv, "-l", []string{"", "a:1", "b:2", "c:3"}[k])
			wantL++
		case 3:
			k++
			argv = append(argv, "-n", []string{"", "4", "5", "6"}[k])
			wantN = k + 3
		}
	}
	d := &c08Acc{}
	p := NewNamedParser("prog", None)
	p.AddGroup("Application Options", "", d)
	_, err := p.ParseArgs(argv)
	vObsErr(v, err)
	v.Assert(err == nil, "an ancestor's options are accepted at every position")
	if err != nil {
		return
	}
	v.Reach("success")
	v.Assert(v.EqStrs(d.T, wantT), "a slice option of an ancestor keeps the elements given before a command word when it is given again after it")
	v.Assert(len(d.L) == wantL && d.N == wantN, "map entries accumulate across command words; a scalar holds the last value")
}

func init() {
	vHarnesses["H_C08_accum"] = H_C08_accum
	vHarnesses["H_C08_tree"] = H_C08_tree
	vHarnesses["H_C08_word"] = H_C08_word
}
