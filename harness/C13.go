//go:build verif

package flags

import "strings"

// C13 - an INI entry means the same as the corresponding command-line flag.

type c13Grp struct {
	Gs string `long:"gs"`
	X  string `long:"cross" ini-name:"Beta"`
}
type c13Cmd struct {
	Cs []string `long:"cs" short:"c"`
	Ci int      `long:"ci"`
}
type c13Decl struct {
	Alpha string            `long:"alpha" short:"a" ini-name:"alias"`
	Beta  string            `long:"beta"`
	L     []string          `long:"list" short:"l"`
	N     int               `long:"num"`
	B     bool              `long:"bb"`
	M     map[string]string `long:"mm"`
	Gamma string            `long:"Delta"`
	Delta string            `long:"gamma"`
	Eo    string            `long:"eopt" short:"é"`
	NoIni string            `long:"ni" no-ini:"yes"`
	Grp   c13Grp            `group:"Grp" namespace:"g"`
	Cmd   c13Cmd            `command:"cmd"`
}

type c13Opt struct {
	ini, field, long, short string
	where                   int // 0 root decl, 1 Grp, 2 cmd
	kind                    int // 0 string, 1 []string, 2 int, 3 bool, 4 map
}

var c13Opts = []c13Opt{
	{"alias", "Alpha", "alpha", "a", 0, 0},
	{"", "Beta", "beta", "", 0, 0},
	{"", "L", "list", "l", 0, 1},
	{"", "N", "num", "", 0, 2},
	{"", "B", "bb", "", 0, 3},
	{"", "M", "mm", "", 0, 4},
	{"", "Gs", "g.gs", "", 1, 0},
	{"Beta", "X", "g.cross", "", 1, 0},
	{"", "Cs", "cs", "c", 2, 1},
	{"", "Ci", "ci", "", 2, 2},
	{"", "Gamma", "Delta", "", 0, 0}, // its long name is another option's field name
	{"", "Delta", "gamma", "", 0, 0},
	{"", "Eo", "eopt", "é", 0, 0}, // a non-ASCII short name
}

// refIniLookup: which option does `key` denote among the candidates, by the
// documented order of preference (ini-name case-insensitively, field name,
// namespaced long name, short name)? -1 if none.
func refIniLookup(cands []int, key string) int {
	best, prio := -1, 0
	for _, i := range cands {
		o := c13Opts[i]
		p := 0
		switch {
		case o.ini != "" && refLowerASCII(o.ini) == refLowerASCII(key):
			p = 4
		case o.field == key:
			p = 3
		case o.long == key:
			p = 2
		case o.short != "" && o.short == key:
			p = 1
		}
		if p > prio {
			best, prio = i, p
		}
	}
	return best
}

func c13Parse(iniText string, asDefaults bool, argv []string) (*c13Decl, error) {
	d := &c13Decl{}
	p := NewNamedParser("prog", None)
	p.AddGroup("Application Options", "", d)
	p.SubcommandsOptional = true
	if iniText != "" {
		ip := NewIniParser(p)
		ip.ParseAsDefaults = asDefaults
		if err := ip.Parse(strings.NewReader(iniText)); err != nil {
			return d, err
		}
	}
	_, err := p.ParseArgs(argv)
	return d, err
}

// H_C13_equiv: 1..2 INI entries in a section against the equivalent flags.
func H_C13_equiv(v *V) {
	section := v.Choice(4) // 0 global, 1 [Application Options], 2 [Grp], 3 [cmd]
	asDefaults := v.Choice(2) == 1
	var cands []int
	header := ""
	switch section {
	case 0:
		cands = []int{0, 1, 2, 3, 4, 5, 10, 11, 12, 6, 7}
	case 1:
		cands = []int{0, 1, 2, 3, 4, 5, 10, 11, 12, 6, 7}
		header = []string{"[Application Options]", "[application options]", "[APPLICATION OPTIONS]", "[ Application Options ]"}[v.Choice(4)]
	case 2:
		cands = []int{6, 7}
		header = []string{"[Grp]", "[grp]", "[GRP]"}[v.Choice(3)]
	case 3:
		cands = []int{8, 9}
		header = "[cmd]"
	}
	n := v.Shape("n")
	text := ""
	if header != "" {
		text = header + "\n"
	}
	// optionally the second entry comes under a second header that denotes the same group
	second := ""
	if n == 2 && section <= 2 && v.Choice(2) == 1 {
		switch section {
		case 0:
			second = "[Application Options]"
		case 1:
			second = "[application options]"
		case 2:
			second = "[GRP]"
		}
	}
	var flags []string
	for e := 0; e < n; e++ {
		oi := cands[v.Choice(len(cands))]
		o := c13Opts[oi]
		// naming form
		var names []string
		if o.ini != "" {
			names = append(names, o.ini, strings.ToUpper(o.ini))
		}
		names = append(names, o.field, o.long)
		if o.short != "" {
			names = append(names, o.short)
		}
		key := names[v.Choice(len(names))]
		// the option the key denotes (crossing names: `Beta` is an ini-name of X and a field name)
		target := refIniLookup(cands, key)
		v.Assume(target >= 0)
		t := c13Opts[target]
		var val string
		switch t.kind {
		case 2:
			val = v.String(v.Shape("lv"))
			v.Assume(refSmallDecimal(val))
		case 3:
			val = []string{"true", ""}[v.Choice(2)]
		case 4:
			k, x := v.String(1), c14Value(v, 1)
			v.Assume(k[0] > ' ' && k[0] < 0x7f && k[0] != ':' && k[0] != '"' && x[0] != '"')
			val = k + ":" + x
		default:
			val = c14Value(v, v.Shape("lv"))
		}
		if e == 1 && second != "" {
			text += second + "\n"
		}
		text += key + " = " + val + "\n"
		if t.kind == 3 {
			flags = append(flags, "--"+t.long)
		} else {
			flags = append(flags, "--"+t.long+"="+val)
		}
	}
	var base []string
	if section == 3 {
		base = []string{"cmd"}
	}
	a, errA := c13Parse(text, asDefaults, base)
	b, errB := c13Parse("", false, append(append([]string{}, base...), flags...))
	vObsErr(v, errA)
	v.Assert((errA == nil) == (errB == nil), "the INI text is accepted iff the equivalent flags are")
	if errA != nil || errB != nil {
		v.Reach("error")
		return
	}
	v.Reach("success")
	if asDefaults {
		v.Reach("as-defaults")
	}
	same := v.EqStr(a.Alpha, b.Alpha) && v.EqStr(a.Beta, b.Beta) && v.EqStrs(a.L, b.L) && a.N == b.N && a.B == b.B &&
		v.EqStr(a.Gamma, b.Gamma) && v.EqStr(a.Delta, b.Delta) && v.EqStr(a.Eo, b.Eo) && v.EqStr(a.Grp.Gs, b.Grp.Gs) && v.EqStr(a.Grp.X, b.Grp.X) && v.EqStrs(a.Cmd.Cs, b.Cmd.Cs) && a.Cmd.Ci == b.Cmd.Ci
	v.Assert(same, "each entry selects the same option and stores the same value as the corresponding flag; repeated entries accumulate")
	v.Assert(len(a.M) == len(b.M), "map entries accumulate like repeated flags")
	for k, x := range b.M {
		y, ok := a.M[k]
		v.Assert(ok && v.EqStr(x, y), "map entries hold the same values")
	}
}

// H_C13_noini: a no-ini option must be unknown to the INI reader.
func H_C13_noini(v *V) {
	key := []string{"NoIni", "ni"}[v.Choice(2)]
	_, err := c13Parse(key+" = x\n", v.Choice(2) == 1, nil)
	v.Reach("noini")
	_, isIni := err.(*IniError)
	v.Assert(err != nil && isIni, "an option marked no-ini is unknown to the INI reader")
}

// H_C13_value: one entry with a longer value - whatever bytes the value
// contains (comment characters after a blank, '=', brackets, ...), the entry
// stores what --name=value stores.
func H_C13_value(v *V) {
	val := c14Value(v, v.Shape("lv"))
	kind := v.Choice(3)
	var text string
	var flags []string
	switch kind {
	case 0:
		text = "alias = " + val + "\n"
		flags = []string{"--alpha=" + val}
	case 1:
		text = "[Application Options]\nlist = x\nl=" + val + "\n"
		flags = []string{"--list=x", "--list=" + val}
	case 2:
		text = "mm = k:" + val + "\n"
		flags = []string{"--mm=k:" + val}
	}
	a, errA := c13Parse(text, v.Choice(2) == 1, nil)
	b, errB := c13Parse("", false, flags)
	vObsErr(v, errA)
	v.Assert(errA == nil && errB == nil, "a plain value is accepted from the INI text and from the flag")
	if errA != nil || errB != nil {
		return
	}
	v.Reach("success")
	v.Assert(v.EqStr(a.Alpha, b.Alpha), "the entry stores the same value as the corresponding flag, whatever bytes the value contains")
	v.Assert(v.EqStrs(a.L, b.L), "the entry appends the same element as the corresponding flag, whatever bytes the value contains")
	v.Assert(len(a.M) == len(b.M) && v.EqStr(a.M["k"], b.M["k"]), "the entry stores the same map value as the corresponding flag, whatever bytes the value contains")
}

type c13S2 struct {
	Val   string `long:"val"`
	Only2 string `long:"only2"`
}
type c13SC struct {
	Val   string `long:"val"`
	OnlyC string `long:"onlyc"`
}
type c13S1 struct {
	Val    string `long:"val"`
	Only1  string `long:"only1"`
	Second c13S2  `group:"Second" namespace:"s"`
	Cmd    c13SC  `command:"cmd"`
}

// H_C13_sections: two entries under two section headers; the same key names
// different options in different sections, and a key that the section's group
// does not declare is an error on its own line - whatever was seen earlier.
func H_C13_sections(v *V) {
	headers := []string{"[Application Options]", "[Second]", "[cmd]"}
	keys := []string{"Val", "Only1", "Only2", "OnlyC"}
	// declared[section][key]
	declared := [][]bool{{true, true, true, false}, {true, false, true, false}, {true, false, false, true}}
	want := &c13S1{}
	slot := func(sec, key int) *string {
		switch {
		case key == 1:
			return &want.Only1
		case key == 2:
			return &want.Second.Only2
		case key == 3:
			return &want.Cmd.OnlyC
		case sec == 0:
			return &want.Val
		case sec == 1:
			return &want.Second.Val
		}
		return &want.Cmd.Val
	}
	text := ""
	line := 0
	badLine := 0
	for e := 0; e < 2; e++ {
		sec, key := v.Choice(3), v.Choice(4)
		val := c14Value(v, 1)
		text += headers[sec] + "\n" + keys[key] + " = " + val + "\n"
		line += 2
		if badLine == 0 {
			if declared[sec][key] {
				*slot(sec, key) = val
			} else {
				badLine = line
			}
		}
	}
	d := &c13S1{}
	p := NewNamedParser("prog", None)
	p.AddGroup("Application Options", "", d)
	p.SubcommandsOptional = true
	err := NewIniParser(p).Parse(strings.NewReader(text))
	vObsErr(v, err)
	if badLine != 0 {
		v.Reach("unknown-key")
		ie, isIni := err.(*IniError)
		v.Assert(err != nil && isIni, "a key the section's group does not declare is an INI error")
		if isIni {
			v.Assert(int(ie.LineNumber) == badLine, "the error carries the line number of the offending entry")
		}
		return
	}
	v.Reach("success")
	v.Assert(err == nil, "declared keys are accepted")
	v.Assert(v.EqStr(d.Val, want.Val) && v.EqStr(d.Second.Val, want.Second.Val) && v.EqStr(d.Cmd.Val, want.Cmd.Val), "the same key under different section headers selects each section's own option")
	v.Assert(v.EqStr(d.Only1, want.Only1) && v.EqStr(d.Second.Only2, want.Second.Only2) && v.EqStr(d.Cmd.OnlyC, want.Cmd.OnlyC), "every entry is applied to the option of the section it stands in")
}

type c13Cho struct {
	Mode string `long:"mode" choice:"a" choice:"bb"`
	Lvl  int    `long:"lvl" choice:"1" choice:"22"`
}

// H_C13_choice: an option with declared choices accepts from the INI text
// exactly what it accepts from the command line (the empty value included).
func H_C13_choice(v *V) {
	V := c14Value(v, v.Shape("lv"))
	which := v.Choice(2)
	key := []string{"mode", "lvl"}[which]
	run := func(ini bool) (*c13Cho, error) {
		d := &c13Cho{}
		p := NewNamedParser("prog", None)
		p.AddGroup("Application Options", "", d)
		if ini {
			return d, NewIniParser(p).Parse(strings.NewReader(key + " = " + V + "\n"))
		}
		_, err := p.ParseArgs([]string{"--" + key + "=" + V})
		return d, err
	}
	a, errA := run(true)
	b, errB := run(false)
	vObsErr(v, errA)
	v.Assert((errA == nil) == (errB == nil), "a value is accepted from the INI text iff the flag accepts it (declared choices apply to both)")
	if errA == nil && errB == nil {
		v.Reach("accepted")
		v.Assert(v.EqStr(a.Mode, b.Mode) && a.Lvl == b.Lvl, "the entry stores the same value as the flag")
	} else {
		v.Reach("rejected")
	}
}

// H_C13_long: an entry whose line is longer than the reader's buffer stores
// what the flag stores.
func H_C13_long(v *V) {
	L := v.Shape("L")
	fill := make([]byte, L)
	for i := range fill {
		fill[i] = byte('a' + i%19)
	}
	val := string(fill) + c14Value(v, 1)
	a, errA := c13Parse("alias = "+val+"\nnum = 7\n", v.Choice(2) == 1, nil)
	b, errB := c13Parse("", false, []string{"--alpha=" + val, "--num=7"})
	vObsErr(v, errA)
	v.Assert(errA == nil && errB == nil, "a long value is accepted from the INI text and from the flag")
	if errA != nil || errB != nil {
		return
	}
	v.Reach("success")
	v.Assert(len(a.Alpha) == len(b.Alpha) && v.EqStr(a.Alpha, b.Alpha) && a.N == b.N && a.N == 7, "a long entry and the entry after it store the same values as the corresponding flags")
}

// H_C14_sections: the same harness decides C14's unknown-option clause.
func H_C14_sections(v *V) { H_C13_sections(v) }

func init() {
	vHarnesses["H_C13_sections"] = H_C13_sections
	vHarnesses["H_C13_choice"] = H_C13_choice
	vHarnesses["H_C13_long"] = H_C13_long
	vHarnesses["H_C14_sections"] = H_C14_sections
	vHarnesses["H_C13_value"] = H_C13_value
	vHarnesses["H_C13_equiv"] = H_C13_equiv
	vHarnesses["H_C13_noini"] = H_C13_noini
}
