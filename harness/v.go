//go:build verif

package flags

// v.go: the nondeterminism / assertion interface shared by every harness.
// Under gosymx the methods of V are intercepted (symbolic values, solver
// obligations). Natively - replay of a counterexample or of a path witness -
// the bodies below read the recorded values in call order.

import (
	"fmt"
	"io/ioutil"
	"os"
	"strings"
)

type vReplayValue struct {
	Kind  string `json:"kind"`
	Bytes []int  `json:"bytes"`
	Int   int64  `json:"int"`
}

type vAssumeFailed struct{ msg string }

type V struct {
	shape    map[string]int
	vals     []vReplayValue
	pos      int
	Failed   []string
	Obs      []string
	ReachLog []string
	known    map[string]bool
	envSet   []string
	outFile  *os.File
	errFile  *os.File
	oldOut   *os.File
	oldErr   *os.File
	restore  []func()
}

func (v *V) next(kind string) vReplayValue {
	if v.pos >= len(v.vals) {
		panic(vAssumeFailed{"replay values exhausted (wanted " + kind + ")"})
	}
	r := v.vals[v.pos]
	v.pos++
	if r.Kind != kind {
		panic(vAssumeFailed{fmt.Sprintf("replay value %d has kind %s, harness asked for %s", v.pos-1, r.Kind, kind)})
	}
	return r
}

// Shape returns a concrete parameter of the work item (a bound).
func (v *V) Shape(name string) int {
	x, ok := v.shape[name]
	if !ok {
		panic("shape parameter missing: " + name)
	}
	return x
}

// String returns a string of exactly n arbitrary bytes.
func (v *V) String(n int) string {
	r := v.next("string")
	if len(r.Bytes) != n {
		panic(vAssumeFailed{"replay string length mismatch"})
	}
	b := make([]byte, n)
	for i := range b {
		b[i] = byte(r.Bytes[i])
	}
	return string(b)
}

func (v *V) Byte() byte { return byte(v.next("byte").Int) }
func (v *V) Bool() bool { return v.next("bool").Int != 0 }

// Int returns an arbitrary int in [lo, hi].
func (v *V) Int(lo, hi int) int {
	x := int(v.next("int").Int)
	if x < lo || x > hi {
		panic(vAssumeFailed{"replay int out of range"})
	}
	return x
}

// Choice returns an arbitrary concrete value in [0, n).
func (v *V) Choice(n int) int {
	x := int(v.next("choice").Int)
	if x < 0 || x >= n {
		panic(vAssumeFailed{"replay choice out of range"})
	}
	return x
}

func (v *V) Assume(c bool) {
	if !c {
		panic(vAssumeFailed{"assumption false"})
	}
}

func (v *V) Assert(c bool, msg string) {
	if !c {
		v.Failed = append(v.Failed, msg)
	}
}

func (v *V) Reach(label string) { v.ReachLog = append(v.ReachLog, label) }

func (v *V) ObserveStr(label string, s string) { v.Obs = append(v.Obs, fmt.Sprintf("%s=%q", label, s)) }
func (v *V) ObserveInt(label string, i int)    { v.Obs = append(v.Obs, fmt.Sprintf("%s=%d", label, i)) }
func (v *V) ObserveBool(label string, b bool)  { v.Obs = append(v.Obs, fmt.Sprintf("%s=%v", label, b)) }
func (v *V) ObserveStrs(label string, ss []string) {
	parts := make([]string, len(ss))
	for i, s := range ss {
		parts[i] = fmt.Sprintf("%q", s)
	}
	v.Obs = append(v.Obs, label+"=["+strings.Join(parts, ",")+"]")
}

func (v *V) Setenv(key, val string) {
	old, had := os.LookupEnv(key)
	os.Setenv(key, val)
	v.restore = append(v.restore, func() {
		if had {
			os.Setenv(key, old)
		} else {
			os.Unsetenv(key)
		}
	})
}

func (v *V) captureStart() {
	v.oldOut, v.oldErr = os.Stdout, os.Stderr
	v.outFile, _ = ioutil.TempFile("", "vout")
	v.errFile, _ = ioutil.TempFile("", "verr")
	os.Stdout, os.Stderr = v.outFile, v.errFile
}

func (v *V) captureEnd() {
	if v.outFile == nil {
		return
	}
	os.Stdout, os.Stderr = v.oldOut, v.oldErr
	v.outFile.Close()
	v.errFile.Close()
	os.Remove(v.outFile.Name())
	os.Remove(v.errFile.Name())
	v.outFile = nil
	for i := len(v.restore) - 1; i >= 0; i-- {
		v.restore[i]()
	}
	v.restore = nil
}

func (v *V) Stdout() string {
	b, _ := ioutil.ReadFile(v.outFile.Name())
	return string(b)
}

func (v *V) Stderr() string {
	b, _ := ioutil.ReadFile(v.errFile.Name())
	return string(b)
}

// TermWidth fixes the terminal width seen by the help generator.
func (v *V) TermWidth(w int) { vSetTermWidth(v, w) }

// MapOrder(true) asks for every map iteration order to be explored.
func (v *V) MapOrder(nondet bool) {}

// Symbolic reports whether the harness runs under the symbolic executor
// (true) or natively (false).
func (v *V) Symbolic() bool { return false }

// Known reports whether the named known-finding predicate is listed as an
// open finding (the harness then assumes its negation).
func (v *V) Known(name string) bool { return v.known[name] }

// ExpectExit declares that process termination is an expected outcome.
func (v *V) ExpectExit() {}

// Non-forking boolean helpers (one solver term under gosymx).
func (v *V) And(a, b bool) bool     { return a && b }
func (v *V) Or(a, b bool) bool      { return a || b }
func (v *V) Not(a bool) bool        { return !a }
func (v *V) Implies(a, b bool) bool { return !a || b }
func (v *V) EqStr(a, b string) bool { return a == b }
func (v *V) EqStrs(a, b []string) bool {
	if len(a) != len(b) {
		return false
	}
	for i := range a {
		if a[i] != b[i] {
			return false
		}
	}
	return true
}
func (v *V) Contains(s, sub string) bool  { return strings.Contains(s, sub) }
func (v *V) HasPrefix(s, pre string) bool { return strings.HasPrefix(s, pre) }
