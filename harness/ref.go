//go:build verif

package flags

// ref.go: reference predicates - short independent specifications written
// from the documentation and the property statements. None of them calls the
// function it judges.

// refLev is the textbook Levenshtein distance over characters (runes).
func refLev(s, t string) int {
	a, b := []rune(s), []rune(t)
	d := make([][]int, len(a)+1)
	for i := range d {
		d[i] = make([]int, len(b)+1)
		d[i][0] = i
	}
	for j := 0; j <= len(b); j++ {
		d[0][j] = j
	}
	for i := 1; i <= len(a); i++ {
		for j := 1; j <= len(b); j++ {
			c := 1
			if a[i-1] == b[j-1] {
				c = 0
			}
			m := d[i-1][j-1] + c
			if d[i-1][j]+1 < m {
				m = d[i-1][j] + 1
			}
			if d[i][j-1]+1 < m {
				m = d[i][j-1] + 1
			}
			d[i][j] = m
		}
	}
	return d[len(a)][len(b)]
}

// refSameRunes reports whether s and t are the same sequence of characters.
func refSameRunes(s, t string) bool {
	a, b := []rune(s), []rune(t)
	if len(a) != len(b) {
		return false
	}
	for i := range a {
		if a[i] != b[i] {
			return false
		}
	}
	return true
}

// refOptionSyntax: the documented rule - a token is an option iff it is `-c...`
// with c != '-', or `--c...` with c != '-'.
func refOptionSyntax(t string) bool {
	if len(t) >= 2 && t[0] == '-' && t[1] != '-' {
		return true
	}
	if len(t) >= 3 && t[0] == '-' && t[1] == '-' && t[2] != '-' {
		return true
	}
	return false
}

// refNegNumber: narrow reading of "negative number": '-' followed by a digit.
func refNegNumber(t string) bool {
	return len(t) >= 2 && t[0] == '-' && t[1] >= '0' && t[1] <= '9'
}

// refMapKey: the key denoted by a key:value argument (text before the first ':').
func refMapKey(s string) string {
	for i := 0; i < len(s); i++ {
		if s[i] == ':' {
			return s[:i]
		}
	}
	return s
}

// ---- reference parse for restricted declarations (C03, C10) ----
//
// Written from the package documentation and the property statements:
// bool flags, string options, string positionals (optionally a trailing
// slice) and command words. Short and long names are separate name spaces;
// command words are in scope only until a command has been chosen.

type refSpec struct {
	flags    []string // "-x" / "--xx" names of bool flags
	argopts  []string // names of string options
	npos     int      // number of string positionals
	rest     bool     // trailing slice positional
	cmds     []string // command words
	cmdFlags []string // bool flags that come into scope once a command word has been seen
}

type refResult struct {
	ok   bool
	skip bool // input outside the reference's domain (quoted argument)
	rest []string
	pos  []string
	a    bool   // some flag occurred
	b    string // last value of the string option
	bset bool
	cmd  string
}

func refIn(names []string, n string) bool {
	for _, x := range names {
		if x == n {
			return true
		}
	}
	return false
}

func refIndexByte(s string, c byte) int {
	for i := 0; i < len(s); i++ {
		if s[i] == c {
			return i
		}
	}
	return -1
}

func refParse(sp refSpec, opts Options, argv []string) refResult {
	var r refResult
	npos := sp.npos
	i := 0
	addArg := func(t string) {
		if npos > 0 {
			r.pos = append(r.pos, t)
			npos--
			return
		}
		if sp.rest {
			r.pos = append(r.pos, t)
			return
		}
		r.rest = append(r.rest, t)
	}
	admissible := func(t string) bool {
		if refOptionSyntax(t) {
			return false
		}
		if opts&PassDoubleDash != 0 && t == "--" {
			return false
		}
		return true
	}
	for i < len(argv) {
		t := argv[i]
		i++
		if opts&PassDoubleDash != 0 && t == "--" {
			for ; i < len(argv); i++ {
				addArg(argv[i])
			}
			break
		}
		if !refOptionSyntax(t) {
			if opts&PassAfterNonOption != 0 && !(refIn(sp.cmds, t) && r.cmd == "") {
				addArg(t)
				for ; i < len(argv); i++ {
					addArg(argv[i])
				}
				break
			}
			if npos > 0 || sp.rest {
				addArg(t)
				continue
			}
			if len(sp.cmds) > 0 && len(r.rest) == 0 && r.cmd == "" {
				if refIn(sp.cmds, t) {
					r.cmd = t
					continue
				}
				return refResult{}
			}
			addArg(t)
			continue
		}
		unknown := func() bool {
			if opts&IgnoreUnknown != 0 {
				addArg(t)
				return true
			}
			return false
		}
		if len(t) >= 2 && t[0] == '-' && t[1] == '-' {
			name := t[2:]
			var arg *string
			if k := refIndexByte(name, '='); k >= 0 {
				v := name[k+1:]
				arg = &v
				name = name[:k]
			}
			switch {
			case refIn(sp.flags, "--"+name) || (r.cmd != "" && refIn(sp.cmdFlags, "--"+name)):
				if arg != nil {
					return refResult{}
				}
				r.a = true
			case refIn(sp.argopts, "--"+name):
				if arg == nil {
					if i >= len(argv) || !admissible(argv[i]) {
						return refResult{}
					}
					v := argv[i]
					i++
					arg = &v
				}
				if len(*arg) > 0 && (*arg)[0] == '"' {
					return refResult{skip: true}
				}
				r.b, r.bset = *arg, true
			default:
				if !unknown() {
					return refResult{}
				}
			}
			continue
		}
		// short option or cluster
		body := t[1:]
		rs := []rune(body)
		n := len(string(rs[0]))
		if rs[0] == 0xFFFD && !(len(body) >= 3 && body[0] == 0xEF && body[1] == 0xBF && body[2] == 0xBD) {
			n = 1
		}
		var arg *string
		runes := body
		if len(body) > n && body[n] == '=' {
			v := body[n+1:]
			arg = &v
			runes = body[:n]
		} else if refIn(sp.argopts, "-"+string(rs[0])) && len(body) > n {
			v := body[n:]
			arg = &v
			runes = body[:n]
		}
		total := len([]rune(runes))
		cnt := 0
		bad := false
		for _, c := range runes {
			cnt++
			nm := "-" + string(c)
			switch {
			case refIn(sp.flags, nm) || (r.cmd != "" && refIn(sp.cmdFlags, nm)):
				if arg != nil {
					return refResult{}
				}
				r.a = true
			case refIn(sp.argopts, nm):
				if arg == nil {
					if cnt != total || i >= len(argv) || !admissible(argv[i]) {
						return refResult{}
					}
					v := argv[i]
					i++
					arg = &v
				}
				if len(*arg) > 0 && (*arg)[0] == '"' {
					return refResult{skip: true}
				}
				r.b, r.bset = *arg, true
				arg = nil
			default:
				if !unknown() {
					return refResult{}
				}
				bad = true
			}
			if bad {
				break
			}
		}
	}
	if len(sp.cmds) > 0 && r.cmd == "" {
		return refResult{}
	}
	r.ok = true
	return r
}

// refIsDecimal: optional sign followed by one or more decimal digits
// (underscores are not accepted because the declared base is never 0).
func refIsDecimal(s string) bool {
	i := 0
	if len(s) > 0 && (s[0] == '+' || s[0] == '-') {
		i = 1
	}
	if i >= len(s) {
		return false
	}
	for ; i < len(s); i++ {
		if s[i] < '0' || s[i] > '9' {
			return false
		}
	}
	return true
}

// refOneRune: s is exactly one valid UTF-8 encoded character.
func refOneRune(s string) bool {
	rs := []rune(s)
	return len(rs) == 1 && rs[0] != 0xFFFD && len(string(rs[0])) == len(s)
}

// refSmallDecimal: 1..3 decimal digits (no sign): a small non-negative integer.
func refSmallDecimal(s string) bool {
	if len(s) == 0 || len(s) > 3 {
		return false
	}
	for i := 0; i < len(s); i++ {
		if s[i] < '0' || s[i] > '9' {
			return false
		}
	}
	return true
}

func refAtoiSmall(s string) int {
	n := 0
	for i := 0; i < len(s); i++ {
		n = n*10 + int(s[i]-'0')
	}
	return n
}

// refItoa renders a non-negative int < 1000 in decimal (canonical, no padding).
func refItoa(n int) string {
	if n < 0 || n > 999 {
		return "?"
	}
	if n >= 100 {
		return string([]byte{byte('0' + n/100), byte('0' + n/10%10), byte('0' + n%10)})
	}
	if n >= 10 {
		return string([]byte{byte('0' + n/10), byte('0' + n%10)})
	}
	return string([]byte{byte('0' + n)})
}

// refDigit: value of a digit character, or 99.
func refDigit(c byte) uint64 {
	switch {
	case c >= '0' && c <= '9':
		return uint64(c - '0')
	case c >= 'a' && c <= 'z':
		return uint64(c-'a') + 10
	case c >= 'A' && c <= 'Z':
		return uint64(c-'A') + 10
	}
	return 99
}

// refInt: does s denote an integer in base `base` (2..36) that fits a signed /
// unsigned type of `bits` bits? Signed kinds accept one leading '+' or '-';
// unsigned kinds accept no sign. Returns the sign and magnitude.
func refInt(s string, base, bits int, signed bool) (neg bool, mag uint64, ok bool) {
	i := 0
	if signed && len(s) > 0 && (s[0] == '+' || s[0] == '-') {
		neg = s[0] == '-'
		i = 1
	}
	if i >= len(s) {
		return false, 0, false
	}
	const maxU = ^uint64(0)
	b := uint64(base)
	for ; i < len(s); i++ {
		d := refDigit(s[i])
		if d >= b {
			return false, 0, false
		}
		// overflow of the 64-bit accumulator means out of range for every kind
		if mag > maxU/b {
			return false, 0, false
		}
		mag *= b
		if mag > maxU-d {
			return false, 0, false
		}
		mag += d
	}
	var limit uint64
	switch {
	case !signed && bits == 64:
		limit = maxU
	case !signed:
		limit = uint64(1)<<uint(bits) - 1
	case neg:
		limit = uint64(1) << uint(bits-1)
	default:
		limit = uint64(1)<<uint(bits-1) - 1
	}
	if mag > limit {
		return false, 0, false
	}
	return neg, mag, true
}

// refBool: the spellings strconv documents for booleans.
func refBool(s string) (val, ok bool) {
	switch s {
	case "1", "t", "T", "TRUE", "true", "True":
		return true, true
	case "0", "f", "F", "FALSE", "false", "False":
		return false, true
	}
	return false, false
}

func refLowerASCII(s string) string {
	b := []byte(s)
	for i := range b {
		if b[i] >= 'A' && b[i] <= 'Z' {
			b[i] += 'a' - 'A'
		}
	}
	return string(b)
}

// ---- C17: reference check of wrapped text ----

// refIsSpace: Unicode white space (what "words" are separated by).
func refIsSpace(r rune) bool {
	switch r {
	case ' ', '\t', '\n', '\v', '\f', '\r', 0x85, 0xA0, 0x1680, 0x2028, 0x2029, 0x202F, 0x205F, 0x3000:
		return true
	}
	return r >= 0x2000 && r <= 0x200A
}

type refCh struct {
	c       rune
	ws      bool // preceded by white space (or at the start)
	lineEnd bool // last character of an output line
}

func refSplitLines(s string) []string {
	var out []string
	start := 0
	for i := 0; i < len(s); i++ {
		if s[i] == '\n' {
			out = append(out, s[start:i])
			start = i + 1
		}
	}
	return append(out, s[start:])
}

// refWrapCheck judges the output o of wrapping the hyphen-free text d to
// width l with continuation prefix p. It returns 0 if well-formed, else:
// 1 continuation line lacks the prefix, 2 a line is wider than the width,
// 3 a character was lost, altered or invented, 4 a word boundary changed
// (other than at a hyphenated break), 5 text was left over.
func refWrapCheck(d string, l int, p string, o string) int {
	if l < 10 {
		l = 10
	}
	var oc []refCh
	for i, ln := range refSplitLines(o) {
		if i > 0 && ln != "" {
			if len(ln) < len(p) || ln[:len(p)] != p {
				return 1
			}
			ln = ln[len(p):]
		}
		rs := []rune(ln)
		if len(rs) > l {
			return 2
		}
		ws := true
		for j, r := range rs {
			if refIsSpace(r) {
				ws = true
				continue
			}
			oc = append(oc, refCh{r, ws, j == len(rs)-1})
			ws = false
		}
	}
	var dc []refCh
	ws := true
	for _, r := range []rune(d) {
		if refIsSpace(r) {
			ws = true
			continue
		}
		dc = append(dc, refCh{c: r, ws: ws})
		ws = false
	}
	i, j := 0, 0
	afterBreak := false
	for i < len(oc) {
		if oc[i].c == '-' && oc[i].lineEnd {
			// an inserted break hyphen (d contains no '-')
			i++
			afterBreak = true
			continue
		}
		if j >= len(dc) || oc[i].c != dc[j].c {
			return 3
		}
		if oc[i].ws != dc[j].ws && !(afterBreak && oc[i].ws && !dc[j].ws) {
			return 4
		}
		afterBreak = false
		i++
		j++
	}
	if j != len(dc) {
		return 5
	}
	return 0
}

// ---- C19: struct tag reference ----

// refQuote renders v as a Go double-quoted literal (legal in a struct tag).
func refQuote(v string) string {
	const hex = "0123456789abcdef"
	out := []byte{'"'}
	for i := 0; i < len(v); i++ {
		c := v[i]
		switch {
		case c == '"' || c == '\\':
			out = append(out, '\\', c)
		case c >= 0x20 && c <= 0x7e:
			out = append(out, c)
		default:
			out = append(out, '\\', 'x', hex[c>>4], hex[c&15])
		}
	}
	return string(append(out, '"'))
}

type refTag struct {
	keys []string
	vals []string
}

func (t refTag) get(key string) string {
	r := ""
	for i, k := range t.keys {
		if k == key {
			r = t.vals[i]
		}
	}
	return r
}

func (t refTag) getMany(key string) []string {
	var r []string
	for i, k := range t.keys {
		if k == key {
			r = append(r, t.vals[i])
		}
	}
	return r
}

// refScanTag: the strict Go struct-tag convention - key:"quoted" pairs
// separated by blanks; keys are non-empty runs of bytes other than blank,
// ':', '"' and control characters.
func refScanTag(tag string, unquote func(string) (string, error)) (refTag, bool) {
	var ret refTag
	for tag != "" {
		i := 0
		for i < len(tag) && tag[i] == ' ' {
			i++
		}
		tag = tag[i:]
		if tag == "" {
			break
		}
		i = 0
		for i < len(tag) && tag[i] > ' ' && tag[i] != ':' && tag[i] != '"' && tag[i] != 0x7f {
			i++
		}
		if i == 0 || i+1 >= len(tag) || tag[i] != ':' || tag[i+1] != '"' {
			return ret, false
		}
		name := tag[:i]
		tag = tag[i+1:]
		i = 1
		for i < len(tag) && tag[i] != '"' {
			if tag[i] == '\\' {
				i++
			}
			i++
		}
		if i >= len(tag) {
			return ret, false
		}
		q := tag[:i+1]
		tag = tag[i+1:]
		val, err := unquote(q)
		if err != nil {
			return ret, false
		}
		ret.keys = append(ret.keys, name)
		ret.vals = append(ret.vals, val)
	}
	return ret, true
}

// refIndexStr: first index of sub in s, or -1 (concrete-friendly).
func refIndexStr(s, sub string) int {
	for i := 0; i+len(sub) <= len(s); i++ {
		if s[i:i+len(sub)] == sub {
			return i
		}
	}
	return -1
}

// refFloatSyntax: does s have the syntax of a decimal floating point number
// as strconv documents it - optional sign, digits with an optional point (at
// least one digit), optional exponent e/E with optional sign and at least one
// digit; underscores only between digits are NOT accepted here without a base
// prefix; or (case-insensitively) inf, infinity, nan with optional sign (not
// for nan). Hexadecimal forms are outside this reference.
func refFloatSyntax(s string) (ok, hexish bool) {
	i := 0
	if i < len(s) && (s[i] == '+' || s[i] == '-') {
		i++
	}
	rest := refLowerASCII(s[i:])
	if rest == "inf" || rest == "infinity" {
		return true, false
	}
	if refLowerASCII(s) == "nan" {
		return true, false
	}
	if len(rest) >= 2 && rest[0] == '0' && rest[1] == 'x' {
		return false, true
	}
	for k := 0; k < len(s); k++ {
		if s[k] == '_' {
			return false, true // underscore rules are outside this reference
		}
	}
	digits := 0
	for i < len(s) && s[i] >= '0' && s[i] <= '9' {
		i++
		digits++
	}
	if i < len(s) && s[i] == '.' {
		i++
		for i < len(s) && s[i] >= '0' && s[i] <= '9' {
			i++
			digits++
		}
	}
	if digits == 0 {
		return false, false
	}
	if i < len(s) && (s[i] == 'e' || s[i] == 'E') {
		i++
		if i < len(s) && (s[i] == '+' || s[i] == '-') {
			i++
		}
		ed := 0
		for i < len(s) && s[i] >= '0' && s[i] <= '9' {
			i++
			ed++
		}
		if ed == 0 {
			return false, false
		}
	}
	return i == len(s), false
}

// refDuration: the documented grammar of time.ParseDuration - an optional
// sign, then either the single digit 0 or a non-empty sequence of
// <decimal number with optional fraction><unit>, units ns us µs μs ms s m h.
// Returns nanoseconds. (Overflow is outside the lengths the harness uses.)
func refDuration(s string) (int64, bool) {
	neg := false
	if len(s) > 0 && (s[0] == '-' || s[0] == '+') {
		neg = s[0] == '-'
		s = s[1:]
	}
	if s == "0" {
		return 0, true
	}
	if s == "" {
		return 0, false
	}
	var total int64
	for len(s) > 0 {
		i := 0
		var ip int64
		for i < len(s) && refDec(s[i]) {
			ip = ip*10 + int64(s[i]-'0')
			i++
		}
		nInt := i
		var fp, scale int64 = 0, 1
		nFrac := 0
		if i < len(s) && s[i] == '.' {
			i++
			for i < len(s) && refDec(s[i]) {
				fp = fp*10 + int64(s[i]-'0')
				scale *= 10
				i++
				nFrac++
			}
		}
		if nInt == 0 && nFrac == 0 {
			return 0, false
		}
		j := i
		for j < len(s) && s[j] != '.' && !refDec(s[j]) {
			j++
		}
		var u int64
		switch s[i:j] {
		case "ns":
			u = 1
		case "us", "µs", "μs":
			u = 1000
		case "ms":
			u = 1000000
		case "s":
			u = 1000000000
		case "m":
			u = 60 * 1000000000
		case "h":
			u = 3600 * 1000000000
		default:
			return 0, false
		}
		total += ip*u + fp*u/scale
		s = s[j:]
	}
	if neg {
		total = -total
	}
	return total, true
}

func refDec(c byte) bool { return c >= '0' && c <= '9' }
