//go:build verif

package flags

// ref.go: reference predicates - short independent specifications written
// from the documentation and the property statements. None of them calls the
// function it judges.

// refLev is the textbook Levenshtein distance over characters (runes).
func refLev(s, t string) int {
	a, b := []rune(s), []rune(t)
	d := make([][]int, len(a)+1)
	for i := range d {
		d[i] = make([]int, len(b)+1)
		d[i][0] = i
	}
	for j := 0; j <= len(b); j++ {
		d[0][j] = j
	}
	for i := 1; i <= len(a); i++ {
		for j := 1; j <= len(b); j++ {
			c := 1
			if a[i-1] == b[j-1] {
				c = 0
			}
			m := d[i-1][j-1] + c
			if d[i-1][j]+1 < m {
				m = d[i-1][j] + 1
			}
			if d[i][j-1]+1 < m {
				m = d[i][j-1] + 1
			}
			d[i][j] = m
		}
	}
	return d[len(a)][len(b)]
}

// refSameRunes reports whether s and t are the same sequence of characters.
func refSameRunes(s, t string) bool {
	a, b := []rune(s), []rune(t)
	if len(a) != len(b) {
		return false
	}
	for i := range a {
		if a[i] != b[i] {
			return false
		}
	}
	return true
}

// refOptionSyntax: the documented rule - a token is an option iff it is `-c...`
// with c != '-', or `--c...` with c != '-'.
func refOptionSyntax(t string) bool {
	if len(t) >= 2 && t[0] == '-' && t[1] != '-' {
		return true
	}
	if len(t) >= 3 && t[0] == '-' && t[1] == '-' && t[2] != '-' {
		return true
	}
	return false
}

// refNegNumber: narrow reading of "negative number": '-' followed by a digit.
func refNegNumber(t string) bool {
	return len(t) >= 2 && t[0] == '-' && t[1] >= '0' && t[1] <= '9'
}

// refMapKey: the key denoted by a key:value argument (text before the first ':').
func refMapKey(s string) string {
	for i := 0; i < len(s); i++ {
		if s[i] == ':' {
			return s[:i]
		}
	}
	return s
}
