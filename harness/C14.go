//go:build verif

package flags

import "strings"

// C14 - INI reading is robust and pinpoints errors.

type c14Grp struct {
	G string `long:"gg"`
}
type c14Decl struct {
	S   string            `long:"str" short:"s"`
	N   int               `long:"num"`
	M   map[string]string `long:"map"`
	B   bool              `long:"bb"`
	C   string            `long:"cho" choice:"lo" choice:"hi"`
	H   string            `long:"hid" hidden:"yes"`
	Grp c14Grp            `group:"Grp"`
}

// H_C14_bytes: any byte sequence is read without panic or hang; a reported
// INI error carries a line number inside the text.
func H_C14_bytes(v *V) {
	text := v.String(v.Shape("n"))
	d := &c14Decl{}
	opts := Options(0)
	if v.Choice(2) == 1 {
		opts = IgnoreUnknown
	}
	p := NewNamedParser("prog", opts)
	p.AddGroup("Application Options", "", d)
	ip := NewIniParser(p)
	err := ip.Parse(strings.NewReader(text))
	if err == nil {
		v.Reach("accepted")
		return
	}
	v.Reach("rejected")
	if ie, ok := err.(*IniError); ok {
		lines := 1
		for i := 0; i < len(text); i++ {
			if text[i] == '\n' {
				lines++
			}
		}
		v.ObserveInt("line", int(ie.LineNumber))
		v.Assert(ie.LineNumber >= 1 && int(ie.LineNumber) <= lines, "an INI error carries the 1-based number of a line of the input")
	} else {
		_, typed := vErrType(err)
		v.Assert(typed, "any other rejection is a *flags.Error")
	}
}

// c14Value: a value token - no newline, no blank at either end, not starting
// with a double quote (quoting is C12's subject).
func c14Value(v *V, n int) string {
	s := v.String(n)
	for i := 0; i < len(s); i++ {
		v.Assume(s[i] != '\n')
	}
	if n > 0 {
		v.Assume(s[0] > ' ' && s[0] < 0x7f && s[0] != '"')
		v.Assume(s[n-1] > ' ' && s[n-1] < 0x7f)
	}
	return s
}

// H_C14_lines: two entries, noise lines at every position, one optional
// faulty line of a symbolic class at a symbolic position.
func H_C14_lines(v *V) {
	V1 := c14Value(v, v.Shape("lv"))
	V2 := c14Value(v, 1)
	ignore := v.Choice(2) == 1
	fault := v.Shape("fault")
	crlf := v.Choice(2) == 1
	eol := "\n"
	if crlf {
		eol = "\r\n"
	}
	// one blank pattern per run, used around names and values; one noise
	// block of a symbolic class at one symbolic position
	blank := []string{"", " ", "\t", "  \t"}[v.Choice(4)]
	c14Blanks := func(v *V) string { return blank }
	noiseClass := v.Choice(5)
	noisePos := v.Choice(3)
	npos := 0
	noise := func() []string {
		npos++
		if npos-1 != noisePos {
			return nil
		}
		switch noiseClass {
		case 1:
			return []string{""}
		case 2:
			return []string{c14Blanks(v) + " "}
		case 3:
			c := v.String(2)
			v.Assume(c[0] != '\n' && c[1] != '\n')
			return []string{c14Blanks(v) + ";" + c}
		case 4:
			c := v.String(1)
			v.Assume(c[0] != '\n')
			return []string{"#" + c, ""}
		}
		return nil
	}
	var lines []string
	lines = append(lines, noise()...)
	lines = append(lines, c14Blanks(v)+"str"+c14Blanks(v)+"="+c14Blanks(v)+V1+c14Blanks(v))
	// an option hidden from the help is an ordinary INI key
	lines = append(lines, "hid = hv")
	lines = append(lines, noise()...)
	faultLine := 0
	var faultText string
	switch fault {
	case 1:
		w := v.String(2)
		v.Assume(w[0] > ' ' && w[0] < 0x7f && w[0] != ';' && w[0] != '#' && w[0] != '[' && w[0] != '=' && w[1] > ' ' && w[1] < 0x7f && w[1] != '=')
		faultText = w
	case 2:
		faultText = "[abc"
	case 3:
		faultText = []string{"[]", "[ ]"}[v.Choice(2)]
	case 4:
		faultText = "str = \"abc"
	case 5:
		faultText = "zz = 1"
	case 6:
		faultText = "[Nope]"
	case 7:
		faultText = "num = x1"
	case 8:
		faultText = "= v"
	case 9:
		faultText = "map = k:"
	case 10:
		// a value outside the option's declared choices (also the empty value)
		faultText = "cho = " + []string{"mid", "", "Lo"}[v.Choice(3)]
	}
	if fault != 0 {
		lines = append(lines, faultText)
		faultLine = len(lines)
		if fault == 6 {
			// the unknown section holds an entry, only a comment, or nothing
			switch v.Choice(3) {
			case 0:
				lines = append(lines, "q = 1")
			case 1:
				lines = append(lines, "; nothing here")
			}
		}
	}
	lines = append(lines, "[Grp]")
	lines = append(lines, noise()...)
	lines = append(lines, "gg="+V2)
	text := ""
	for i, l := range lines {
		text += l
		if i < len(lines)-1 || v.Choice(2) == 1 {
			text += eol
		}
	}
	d := &c14Decl{}
	opts := Options(0)
	if ignore {
		opts = IgnoreUnknown
	}
	p := NewNamedParser("prog", opts)
	p.AddGroup("Application Options", "", d)
	err := NewIniParser(p).Parse(strings.NewReader(text))
	vObsErr(v, err)
	applied := func() {
		v.Assert(v.EqStr(d.S, V1) && d.H == "hv", "noise lines and surrounding blanks do not change what an entry means")
		v.Assert(v.EqStr(d.Grp.G, V2), "entries after a section header address that group")
	}
	switch {
	case fault == 0:
		v.Reach("clean")
		v.Assert(err == nil, "a well-formed text with noise lines is accepted")
		applied()
	case fault == 9:
		v.Reach("empty-map-value")
		v.Assert(err == nil, "a map entry with an empty value is accepted")
		if err == nil {
			x, ok := d.M["k"]
			v.Assert(ok && x == "", "the map entry holds the empty value")
			applied()
		}
	case ignore && (fault == 5 || fault == 6):
		v.Reach("ignored")
		v.Assert(err == nil, "under IgnoreUnknown unknown sections and options are skipped")
		applied()
	case fault == 6:
		v.Reach("unknown-group")
		t, typed := vErrType(err)
		v.Assert(err != nil && typed && t == ErrUnknownGroup, "an unknown section is reported as ErrUnknownGroup")
	default:
		v.Reach("faulty")
		ie, ok := err.(*IniError)
		v.Assert(err != nil && ok, "a faulty line is reported as an INI error")
		if ok {
			v.ObserveInt("line", int(ie.LineNumber))
			v.Assert(int(ie.LineNumber) == faultLine, "the error carries the 1-based number of the offending line")
		}
	}
}

// H_C14_long: a value and a comment longer than the reader's buffer sizes do
// not change what the other lines mean.
func H_C14_long(v *V) {
	L := v.Shape("L")
	fill := make([]byte, L)
	for i := range fill {
		fill[i] = 'x'
	}
	tail := c14Value(v, 1)
	where := v.Choice(2)
	var text, wantS string
	if where == 0 {
		wantS = string(fill) + tail
		text = "str = " + wantS + "\nnum = 7\n"
	} else {
		wantS = "before"
		text = "str = before\n; " + string(fill) + tail + "\nnum = 7\n"
	}
	d := &c14Decl{}
	p := NewNamedParser("prog", None)
	p.AddGroup("Application Options", "", d)
	err := NewIniParser(p).Parse(strings.NewReader(text))
	vObsErr(v, err)
	v.Reach("long")
	v.Assert(err == nil, "arbitrarily long lines are read")
	if err == nil {
		v.Assert(len(d.S) == len(wantS) && v.EqStr(d.S, wantS), "a long value is read completely")
		v.Assert(d.N == 7, "the lines around a long line keep their meaning")
	}
}

func init() {
	vHarnesses["H_C14_long"] = H_C14_long
	vHarnesses["H_C14_bytes"] = H_C14_bytes
	vHarnesses["H_C14_lines"] = H_C14_lines
}
