//go:build verif

package flags

import (
	"bytes"
	"errors"
	"fmt"
	"reflect"
	"sort"
	"strconv"
	"strings"
	"time"
)

// SELF.go: translator validation of the executor itself. Each harness pushes
// Go language and standard library semantics (the subset the library relies
// on) through the symbolic executor with Observe calls; EVERY completed path
// is replayed natively and the observations must agree (plans/SELF.json uses
// witness=1). Run by setup_cmd and by `./check SELF`.

type selfT struct {
	buf  []byte
	rd   interface{}
	r, w int
	err  error
	n, m int
}

func (t *selfT) reset(b []byte, r interface{}) { *t = selfT{buf: b, rd: r, n: -1, m: -1} }

type selfShape interface{ Area() int }
type selfSq struct{ s int }
type selfRect struct{ a, b int }

func (s selfSq) Area() int    { return s.s * s.s }
func (r *selfRect) Area() int { return r.a * r.b }

type selfErr struct{ code int }

func (e *selfErr) Error() string { return "E" + strconv.Itoa(e.code) }

func selfRecover(f func()) (msg string) {
	defer func() {
		if r := recover(); r != nil {
			msg = fmt.Sprint(r)
		}
	}()
	f()
	return "none"
}

// H_SELF_lang: structs, pointers, slices, maps, closures, interfaces, defer.
func H_SELF_lang(v *V) {
	x := new(selfT)
	x.reset(make([]byte, 5), v)
	v.ObserveInt("reset.len", len(x.buf))
	v.ObserveInt("reset.n", x.n)
	// struct copy semantics and field addresses
	a := selfRect{2, 3}
	b := a
	pb := &b.a
	b = selfRect{7, 8}
	v.ObserveInt("copy.a", a.a)
	v.ObserveInt("fieldaddr", *pb)
	// arrays are values
	arr := [3]int{1, 2, 3}
	arr2 := arr
	arr2[0] = 9
	v.ObserveInt("arr", arr[0]+arr2[0])
	// slices alias, append growth
	s := make([]int, 2, 4)
	t := append(s, 5)
	u := append(s, 6)
	v.ObserveInt("alias", t[2])
	u = append(u, 1, 2, 3)
	u[0] = 42
	v.ObserveInt("grown", s[0])
	v.ObserveInt("caplen", len(u))
	var nilS []string
	v.ObserveBool("nilslice", nilS == nil)
	v.ObserveInt("copy", copy(s, []int{7, 8, 9}))
	// strings: non-ASCII, conversions, range
	str := "aé€z"
	v.ObserveInt("len", len(str))
	cnt := 0
	last := 0
	for i, r := range str {
		cnt++
		last = i + int(r)
	}
	v.ObserveInt("range", cnt*1000+last)
	bs := []byte("x")
	bs = append(bs, "é€"...)
	v.ObserveStr("appendstr", string(bs))
	v.ObserveStr("runes", string([]rune(str)[1:3]))
	v.ObserveStr("fromrune", string(rune(0x20AC))+string(rune(-1)))
	v.ObserveStr("join", strings.Join([]string{"ee", "é", "été"}, ", "))
	v.ObserveStr("repeat", strings.Repeat("é", 3))
	v.ObserveStr("sprintf", fmt.Sprintf("%s|%v|%d|%c|%q|%%|%x", "é", errors.New("boom"), -5, 'é', "a\"b", 255))
	v.ObserveBool("less", "é" < "été" && "ee" < "é")
	// maps
	m := map[string]int{"a": 1}
	m["b"] = 2
	m["a"] = 3
	delete(m, "zz")
	_, ok := m["c"]
	v.ObserveInt("map", len(m)*100+m["a"]*10+m["b"])
	v.ObserveBool("mapok", ok)
	var nm map[string]int
	v.ObserveInt("nilmap", nm["x"]+len(nm))
	keys := []string{}
	for k := range map[string]bool{"q": true} {
		keys = append(keys, k)
	}
	v.ObserveStrs("keys", keys)
	// closures capture by reference
	ctr := 0
	inc := func() { ctr++ }
	inc()
	inc()
	v.ObserveInt("closure", ctr)
	// interfaces, method sets, type switch
	shapes := []selfShape{selfSq{3}, &selfRect{2, 5}}
	tot := 0
	for _, sh := range shapes {
		switch q := sh.(type) {
		case selfSq:
			tot += q.Area()
		case *selfRect:
			tot += 10 * q.Area()
		}
	}
	v.ObserveInt("iface", tot)
	var e error = &selfErr{4}
	var target *selfErr
	_, isStr := e.(fmt.Stringer)
	target, _ = e.(*selfErr)
	v.ObserveStr("err", e.Error()+strconv.Itoa(target.code))
	v.ObserveBool("notstringer", isStr)
	var nilErr *selfErr
	var ie error = nilErr
	v.ObserveBool("typednil", ie == nil)
	// defer / recover / panics
	v.ObserveStr("recover1", selfRecover(func() { panic("p") }))
	v.ObserveStr("recover2", selfRecover(func() {
		var z []int
		_ = z[3]
	}))
	v.ObserveStr("recover3", selfRecover(func() {}))
	order := ""
	func() {
		defer func() { order += "1" }()
		defer func() { order += "2" }()
		order += "0"
	}()
	v.ObserveStr("defer", order)
	// sort, bytes.Buffer, strconv
	ss := []string{"b", "é", "a", "B"}
	sort.Strings(ss)
	v.ObserveStrs("sort", ss)
	var buf bytes.Buffer
	buf.WriteString("ab")
	buf.WriteRune('é')
	buf.WriteByte('!')
	v.ObserveStr("buffer", buf.String())
	q := strconv.Quote("a\tb\"é\x00")
	uq, uerr := strconv.Unquote(q)
	v.ObserveStr("quote", q+"|"+uq+"|"+fmt.Sprint(uerr))
	n, perr := strconv.ParseInt("-80", 16, 8)
	v.ObserveStr("parseint", fmt.Sprint(n, perr))
	v.ObserveStr("format", strconv.FormatInt(-255, 16)+strconv.FormatUint(35, 36))
}

// H_SELF_arith: integer semantics on symbolic operands.
func H_SELF_arith(v *V) {
	b := v.Byte()
	c := v.Byte()
	i8 := int8(b)
	v.ObserveInt("wrap", int(b+c))
	v.ObserveInt("sub", int(b-c))
	v.ObserveInt("mul", int(b*c))
	v.ObserveInt("s8", int(i8))
	v.ObserveInt("neg", int(-i8))
	v.ObserveInt("shl", int(b<<3))
	v.ObserveInt("shr", int(i8>>2))
	v.ObserveInt("ushr", int(b>>(c&15)))
	v.ObserveInt("andnot", int(b&^c))
	v.ObserveInt("xor", int(^b^c))
	v.ObserveInt("wide", int(uint16(b)<<8|uint16(c)))
	v.ObserveInt("i64", int(int64(i8)*1000003))
	if c != 0 {
		v.ObserveInt("div", int(b/c))
		v.ObserveInt("rem", int(i8%int8(c|1)))
	}
	v.ObserveBool("cmp", b < c)
	v.ObserveBool("scmp", i8 < int8(c))
	tbl := [4]string{"zero", "one", "two", "three"}
	v.ObserveStr("tbl", tbl[b&3])
}

// H_SELF_str: string operations on symbolic bytes.
func H_SELF_str(v *V) {
	s := v.String(v.Shape("n"))
	v.ObserveStr("trim", strings.TrimSpace(s))
	v.ObserveStr("lower", strings.ToLower(s))
	v.ObserveInt("index", strings.Index(s, "="))
	v.ObserveInt("last", strings.LastIndex(s, " "))
	v.ObserveStrs("split", strings.SplitN(s, ":", 2))
	v.ObserveBool("prefix", strings.HasPrefix(s, "-"))
	cnt := 0
	for range s {
		cnt++
	}
	v.ObserveInt("runes", cnt)
	v.ObserveStr("quote", strconv.Quote(s))
	v.ObserveStr("conv", string([]rune(s)))
	v.ObserveStr("replace", strings.Replace(s, "\\", "\\\\", -1))
	m := map[string]int{"ab": 1, "-": 2}
	v.ObserveInt("lookup", m[s])
}

// H_SELF_lib: library models added later - symbolic format strings with
// operands, reflect overflow predicates, time.ParseDuration, os.Environ.
func H_SELF_lib(v *V) {
	f := v.String(v.Shape("n"))
	for i := 0; i < len(f); i++ {
		// bytes the model handles without a cut
		v.Assume(f[i] < 0x80 && (f[i] < '0' || f[i] > '9') && f[i] != '#' && f[i] != '+' && f[i] != '-' && f[i] != ' ' && f[i] != '.' && f[i] != '*' && f[i] != '[')
		if i > 0 && f[i-1] == '%' {
			v.Assume(f[i] == 's' || f[i] == 'v' || f[i] == 'd' || f[i] == 'q' || f[i] == '%')
		}
	}
	cnt := 0
	for i := 0; i < len(f); i++ {
		if f[i] == '%' && i+1 < len(f) {
			if f[i+1] != '%' {
				cnt++
			}
			i++
		}
	}
	v.Assume(cnt >= 1) // at least one verb, so that the operand is consumed
	v.ObserveStr("sprintf", fmt.Sprintf("<"+f+">", "op"))
	x := int64(v.Int(-70000, 70000))
	var i8 int8
	var u16 uint16
	v.ObserveBool("ovf-int8", reflect.ValueOf(&i8).Elem().OverflowInt(x))
	v.ObserveBool("ovf-uint16", reflect.ValueOf(&u16).Elem().OverflowUint(uint64(x)))
	d, err := time.ParseDuration(v.String(2))
	v.ObserveInt("dur", int(d))
	v.ObserveBool("dur-err", err != nil)
}

func init() {
	vHarnesses["H_SELF_lib"] = H_SELF_lib
	vHarnesses["H_SELF_lang"] = H_SELF_lang
	vHarnesses["H_SELF_arith"] = H_SELF_arith
	vHarnesses["H_SELF_str"] = H_SELF_str
}
