//go:build verif

package flags

// C18 - completion offers exactly the valid continuations.

type c18Val string

var c18ValList = []string{"alpha", "bet", "beta"}

// Complete matches case-insensitively: its items are not always literal
// extensions of the typed text (the list is the type's business).
func (c *c18Val) Complete(match string) []Completion {
	var r []Completion
	for _, x := range c18ValList {
		if c18FoldPrefix(x, match) {
			r = append(r, Completion{Item: x})
		}
	}
	return r
}

// c18FoldPrefix: p is a prefix of s, ASCII letters compared without case.
func c18FoldPrefix(s, p string) bool {
	if len(p) > len(s) {
		return false
	}
	for i := 0; i < len(p); i++ {
		a, b := s[i], p[i]
		if b >= 'A' && b <= 'Z' {
			b += 'a' - 'A'
		}
		if a != b {
			return false
		}
	}
	return true
}

type c18Add struct {
	Force bool `short:"F" long:"force"`
	Hid   bool `long:"hid2" hidden:"1"`
	Pos   struct {
		A c18Val
	} `positional-args:"y"`
}
type c18Sub struct {
	Deep bool `long:"deep"`
}
type c18Rm struct {
	Rf  bool   `short:"r" long:"rf"`
	Sub c18Sub `command:"sub"`
	// a positional argument beside a subcommand: a word fills it first, even
	// when it spells the subcommand's name
	Pos struct {
		T c18Val
	} `positional-args:"y"`
}
type c18Hc struct {
	Q bool `long:"q"`
}
type c18Decl struct {
	Verbose bool   `short:"v" long:"verbose"`
	Debug   bool   `short:"d" long:"debug"`
	Hid     bool   `long:"hidopt" hidden:"1"`
	File    c18Val `short:"f" long:"file"`
	Opt     string `short:"o" long:"opt" optional:"1" optional-value:"x"`
	OnlyS   bool   `short:"s"`
	HidS    bool   `short:"z" hidden:"1"`
	Add     c18Add `command:"add"`
	Add2    c18Hc  `command:"add2"`
	Rm      c18Rm  `command:"rm" alias:"remove" subcommands-optional:"1"`
	Hc      c18Hc  `command:"hidcmd" hidden:"1"`
}

type c18Item struct {
	kind string // flag, optattached, optsep, cmd, word, term
	toks []string
}

var c18Pool = []c18Item{
	{"flag", []string{"-v"}},
	{"flag", []string{"--debug"}},
	{"flag", []string{"-dv"}},
	{"optattached", []string{"--file=alpha"}},
	{"optattached", []string{"-fbeta"}},
	{"optsep", []string{"-f", "beta"}},
	{"optsep", []string{"--file", "bet"}},
	{"optsep", []string{"-vf", "beta"}}, // a cluster whose last member takes the next word
	{"optsep", []string{"-vof", "bet"}}, // ... after a member with an optional argument
	{"flag", []string{"-o"}},
	{"cmd", []string{"add"}},
	{"cmd", []string{"add2"}},
	{"cmd", []string{"rm"}},
	{"cmd", []string{"remove"}},
	{"cmd", []string{"sub"}},
	{"word", []string{"w1"}},
	{"term", []string{"--"}},
}

func c18Prefix(s, p string) bool { return len(p) <= len(s) && s[:len(p)] == p }

// c18Ref: the expected completion list for the typed items and partial word.
// ok=false: the statement does not determine the list (partial short cluster).
func c18Ref(typed []c18Item, pending bool, P string) (out []string, cmd string, afterRest bool, ok bool) {
	longs := map[string][]string{"": {"verbose", "debug", "file", "opt"}, "add": {"force"}, "add2": {"q"}, "rm": {"rf"}, "rm/sub": {"deep"}}
	shortOnly := map[string][]string{"": {"s"}}
	subs := map[string][]string{"": {"add", "add2", "rm"}, "rm": {"sub"}}
	posLeft, rest := 0, 0
	terminated := false
	for _, it := range typed {
		if terminated {
			if posLeft > 0 {
				posLeft--
			} else {
				rest++
			}
			continue
		}
		switch it.kind {
		case "term":
			terminated = true
		case "cmd":
			w := it.toks[0]
			switch {
			case posLeft > 0:
				posLeft--
				afterRest = true
			case rest > 0:
				rest++
				afterRest = true
			case cmd == "" && (w == "add" || w == "add2" || w == "rm" || w == "remove"):
				cmd = w
				if w == "remove" {
					cmd = "rm"
				}
				if cmd == "add" || cmd == "rm" {
					posLeft = 1
				}
			case cmd == "rm" && w == "sub":
				cmd = "rm/sub"
			default:
				rest++
			}
		case "word":
			if posLeft > 0 {
				posLeft--
			} else {
				rest++
			}
		}
	}
	scope := []string{""}
	switch cmd {
	case "add", "add2", "rm":
		scope = append(scope, cmd)
	case "rm/sub":
		scope = append(scope, "rm", "rm/sub")
	}
	vals := func(pre, match string) {
		for _, x := range c18ValList {
			if c18FoldPrefix(x, match) {
				out = append(out, pre+x)
			}
		}
	}
	ok = true
	switch {
	case pending:
		vals("", P)
	case terminated:
		// after the terminator the partial word is a positional or a remaining argument
		if posLeft > 0 {
			vals("", P)
		} else {
			ok = false
		}
	case c18Prefix(P, "--file="):
		vals("--file=", P[7:])
	case c18Prefix(P, "-f="):
		vals("-f=", P[3:])
	case c18Prefix(P, "-f"):
		vals("-f", P[2:])
	case c18Prefix(P, "--") || P == "-":
		pre := ""
		if P != "-" {
			pre = P[2:]
		}
		for _, sc := range scope {
			for _, l := range longs[sc] {
				if c18Prefix(l, pre) {
					out = append(out, "--"+l)
				}
			}
			if P == "-" {
				for _, s := range shortOnly[sc] {
					out = append(out, "-"+s)
				}
			}
		}
	case len(P) > 0 && P[0] == '-':
		ok = false
	case posLeft > 0:
		vals("", P)
	case rest > 0:
		// after a remaining argument a word can no longer select a command;
		// whether sub-command names are still offered is not judged
		ok = false
	default:
		for _, s := range subs[cmd] {
			if c18Prefix(s, P) {
				out = append(out, s)
			}
		}
	}
	// sort (insertion sort; short lists)
	for i := 1; i < len(out); i++ {
		for j := i; j > 0 && out[j] < out[j-1]; j-- {
			out[j], out[j-1] = out[j-1], out[j]
		}
	}
	return
}

func c18Parser(opts Options) (*Parser, *c18Decl) {
	d := &c18Decl{}
	p := NewNamedParser("prog", opts)
	p.AddGroup("Application Options", "", d)
	p.SubcommandsOptional = true
	return p, d
}

// H_C18_complete: typed items by construction, symbolic partial word.
func H_C18_complete(v *V) {
	n := v.Shape("n")
	var typed []c18Item
	var argv []string
	for i := 0; i < n; i++ {
		it := c18Pool[v.Choice(len(c18Pool))]
		typed = append(typed, it)
		argv = append(argv, it.toks...)
	}
	pending := false
	terminated := false
	for _, it := range typed {
		if it.kind == "term" {
			terminated = true
		}
	}
	if !terminated && v.Choice(3) == 0 {
		pending = true
		argv = append(argv, []string{"--file", "-f", "-vf", "-vof"}[v.Choice(4)])
	}
	// the partial word: 0..2 leading dashes (shape) followed by symbolic bytes
	P := []string{"", "-", "--"}[v.Shape("dash")] + v.String(v.Shape("lp"))
	want, _, afterRest, ok := c18Ref(typed, pending, P)
	if v.Known("c18_command_after_argument") && afterRest {
		v.Assume(false)
	}
	p, _ := c18Parser(PassDoubleDash)
	var got []string
	called := 0
	p.CompletionHandler = func(items []Completion) {
		called++
		for _, it := range items {
			got = append(got, it.Item)
		}
	}
	v.Setenv("GO_FLAGS_COMPLETION", "1")
	p.ParseArgs(append(append([]string{}, argv...), P))
	v.Assert(called == 1, "the completion handler receives the list once")
	v.ObserveStrs("got", got)
	for i := 1; i < len(got); i++ {
		v.Assert(!(got[i] < got[i-1]), "the list is sorted")
	}
	if ok {
		v.Reach("determined")
		v.Assert(v.EqStrs(got, want), "the list is exactly the valid continuations (options in scope by prefix / the type's completions re-attached to the spelling / visible subcommands by prefix)")
	} else {
		v.Reach("undetermined")
	}
}

// H_C18_accept: every offered option or command is accepted by the parser at
// that position and belongs to the command context the parser itself reaches.
func H_C18_accept(v *V) {
	n := v.Shape("n")
	var typed []c18Item
	var argv []string
	for i := 0; i < n; i++ {
		it := c18Pool[v.Choice(len(c18Pool))]
		typed = append(typed, it)
		argv = append(argv, it.toks...)
	}
	P := []string{"", "-", "--", "--f", "a", "r", "s", "add"}[v.Choice(8)]
	_, _, afterRest, _ := c18Ref(typed, false, P)
	if v.Known("c18_command_after_argument") && afterRest {
		v.Assume(false)
	}
	p, _ := c18Parser(PassDoubleDash)
	var got []string
	p.CompletionHandler = func(items []Completion) {
		for _, it := range items {
			got = append(got, it.Item)
		}
	}
	v.Setenv("GO_FLAGS_COMPLETION", "1")
	p.ParseArgs(append(append([]string{}, argv...), P))
	v.Setenv("GO_FLAGS_COMPLETION", "")
	// the parser's own view of the typed words
	q, _ := c18Parser(PassDoubleDash)
	_, perr := q.ParseArgs(argv)
	if perr != nil {
		v.Reach("prefix-invalid")
		return
	}
	v.Reach("prefix-valid")
	inner := q.Command
	for inner.Active != nil {
		inner = inner.Active
	}
	terminated := false
	for _, it := range typed {
		if it.kind == "term" {
			terminated = true
		}
	}
	if terminated {
		return
	}
	for _, item := range got {
		r, _ := c18Parser(PassDoubleDash)
		try := append(append([]string{}, argv...), item)
		isOpt := len(item) > 1 && item[0] == '-'
		if isOpt && (item == "--file" || item == "--opt=" || item == "-f") {
			try = append(try, "alpha")
		}
		_, err := r.ParseArgs(try)
		t, typedErr := vErrType(err)
		v.Assert(!(typedErr && (t == ErrUnknownFlag || t == ErrUnknownCommand)), "every offered option or command is accepted by the parser at that position")
		if !isOpt && refIn([]string{"add", "add2", "rm", "sub"}, item) {
			v.Assert(inner.Find(item) != nil, "offered commands are subcommands of the command context the parser itself reaches")
		}
	}
}

func init() {
	vHarnesses["H_C18_complete"] = H_C18_complete
	vHarnesses["H_C18_accept"] = H_C18_accept
}
