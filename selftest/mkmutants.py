#!/usr/bin/env python3
"""Generates the self-made mutants (small realistic changes that pass the repository's
tests and break one property) as patch files under /verif/selftest/mutants/<id>/."""
import os, subprocess, shutil, json, tempfile
M = [
 ("m02","C11","convert.go","parsed, err := strconv.ParseInt(val, base, tp.Bits())","parsed, err := strconv.ParseInt(val, base, 64)","ParseInt bit size fixed to 64: values beyond the field's range are truncated by SetInt"),
 ("m03","C11","convert.go","parsed, err := strconv.ParseUint(val, base, tp.Bits())","parsed, err := strconv.ParseUint(val, base, 64)","ParseUint bit size fixed to 64"),
 ("m07","C20","closest.go","if mincmd < 0 || l < mindist {","if mincmd < 0 || l <= mindist {","last minimum instead of first among equally near commands"),
 ("m11","C05","option.go","	if len(usedDefault) > 0 {\n		option.empty()\n","	if len(usedDefault) > 0 {\n","defaults no longer clear the initial slice/map contents"),
 ("m15","C13","group.go","			if name == opt.field.Name && prio < 3 {\n				retopt = opt\n				prio = 3\n			}\n\n			if name == opt.LongNameWithNamespace() && prio < 2 {\n				retopt = opt\n				prio = 2\n			}","			if name == opt.LongNameWithNamespace() && prio < 3 {\n				retopt = opt\n				prio = 3\n			}\n\n			if name == opt.field.Name && prio < 2 {\n				retopt = opt\n				prio = 2\n			}","long name preferred over field name when resolving INI keys"),
 ("m16","C14","ini.go","		lineno++\n		line = strings.TrimSpace(line)\n\n		// Skip empty lines and lines starting with ; (comments)\n		if len(line) == 0 || line[0] == ';' || line[0] == '#' {\n			continue\n		}","		line = strings.TrimSpace(line)\n\n		// Skip empty lines and lines starting with ; (comments)\n		if len(line) == 0 || line[0] == ';' || line[0] == '#' {\n			continue\n		}\n\n		lineno++","blank and comment lines are not counted in line numbers"),
 ("m22","C11","convert.go","parts := strings.SplitN(val, \":\", 2)\n\n		key := parts[0]\n		var value string\n\n		if len(parts) == 2 {\n			value = parts[1]\n		}","key, value := val, \"\"\n\n		if idx := strings.LastIndex(val, \":\"); idx >= 0 {\n			key, value = val[:idx], val[idx+1:]\n		}","map argument split at the last ':' instead of the first"),
 ("m25","C02","option.go","len(arg) > 1 && arg[0] == '-' && arg[1] >= '0' && arg[1] <= '9')","len(arg) > 1 && arg[0] == '-' && arg[1] >= '1' && arg[1] <= '9')","-0... no longer accepted as a negative number argument"),
 ("m28","C20","parser.go","if float32(l)/float32(len(c)) < 0.5 {","if float32(l)/float32(len(c)) <= 0.5 {","suggestion threshold <= instead of <"),
 ("m31","C16","man.go","			if !opt.showInHelp() {\n				continue\n			}\n\n			fmt.Fprintln(wr, \".TP\")","			if !opt.showInHelp() && opt.ShortName == 0 {\n				continue\n			}\n\n			fmt.Fprintln(wr, \".TP\")","hidden options that have a short name are listed in the man page"),
 ("m32","C19","multitag.go","			if v[i] == '\\\\' {\n				i++\n			}\n			i++","			if v[i] == '\\\\' && i+2 < len(v) {\n				i++\n			}\n			i++","backslash directly before the closing quote mis-scanned"),
 ("m34","C06","parser.go","				if !option.isSet && option.Required {","				if !option.isSet && option.Required && (c == parser.Command || len(option.LongName) > 0) {","short-only required options of commands are not enforced"),
 ("m40","C03","parser.go","		if (p.Options&PassDoubleDash) != None && arg == \"--\" {\n			s.addArgs(s.args...)\n			break\n		}","		if (p.Options&PassDoubleDash) != None && arg == \"--\" {\n			if len(s.positional) > 0 && len(s.args) > 1 {\n				s.args = s.args[1:]\n			}\n			s.addArgs(s.args...)\n			break\n		}","first token after -- dropped when a positional is pending and more than one token follows"),
 ("m41","C09","parser.go","	} else if cmd, ok := s.command.data.(Commander); ok {\n		if p.CommandHandler != nil {","	} else if cmd, ok := s.command.data.(Commander); ok {\n		if p.CommandHandler != nil && len(s.retargs) > 0 {","CommandHandler bypassed when there are no remaining arguments"),
 ("m42","C10","parser.go","		if !arg.isRemaining() {\n			p.positional = p.positional[1:]\n		}\n\n		args = args[1:]","		if !arg.isRemaining() {\n			p.positional = p.positional[1:]\n		} else if arg.value.Len() > 3 && len(args) > 1 {\n			args = args[1:]\n		}\n\n		args = args[1:]","trailing slice loses elements once it holds more than three"),
 ("m43","C07","parser.go","	if option := s.lookup.longNames[name]; option != nil {","	if option := s.lookup.longNames[name]; option != nil || len(name) > 3 && s.lookup.longNames[strings.ToLower(name)] != nil {\n		if option == nil {\n			option = s.lookup.longNames[strings.ToLower(name)]\n		}","long names of four or more characters matched case-insensitively"),
 ("m44","C08","command.go","		for _, a := range subcommand.Aliases {\n			ret.commands[a] = subcommand\n		}","		for i, a := range subcommand.Aliases {\n			if i > 0 && len(subcommand.commands) > 0 {\n				continue\n			}\n			ret.commands[a] = subcommand\n		}","second and later aliases of a command that has subcommands are not registered"),
 ("m45","C12","ini.go","return !isPrint(s) || strings.TrimSpace(s) != s || (len(s) != 0 && s[0] == '\"')","return !isPrint(s) || strings.Trim(s, \" \") != s || (len(s) != 0 && s[0] == '\"')","only surrounding spaces (not tabs) force quoting in INI output"),
 ("m46","C15","ini.go","	for _, name := range ini.Order {\n		section := ini.Sections[name]","	for name, section := range ini.Sections {","INI sections applied in map iteration order again"),
 ("m47","C17","help.go","	written := utf8.RuneCount(line.Bytes())","	written := line.Len()","written width measured in bytes again"),
 ("m48","C18","completion.go","		if strings.HasPrefix(name, match) && !opt.Hidden {\n			results = append(results, Completion{\n				Item:        defaultLongOptDelimiter + name,","		if strings.HasPrefix(name, match) && (!opt.Hidden || len(match) > 2) {\n			results = append(results, Completion{\n				Item:        defaultLongOptDelimiter + name,","hidden long options offered once three characters are typed"),
 ("m49","C01","option.go","	if (kind == reflect.Map || kind == reflect.Slice) && option.clearReferenceBeforeSet {\n		option.empty()\n	}","	if (kind == reflect.Map || kind == reflect.Slice) && (option.clearReferenceBeforeSet || option.group.Namespace != \"\" && option.value.Len() > 1) {\n		option.empty()\n	}","slices in namespaced groups are emptied again from the third occurrence on"),
 ("m50","C04","parser.go","		if ok && flagsErr.Type == ErrHelp {\n			fmt.Fprintln(os.Stdout, err)","		if ok && flagsErr.Type == ErrHelp && p.Active == nil {\n			fmt.Fprintln(os.Stdout, err)","help is written to stderr when a command is active"),
]
out = '/verif/selftest/mutants'
os.makedirs(out, exist_ok=True)
env = dict(os.environ, GOFLAGS='-mod=mod', GOPROXY='off', GOSUMDB='off', GOTOOLCHAIN='local')
for mid, prop, f, old, new, what in M:
    w = tempfile.mkdtemp(prefix='mkmut.')
    try:
        subprocess.run(['cp','-r','/repo',w+'/repo'],check=True)
        subprocess.run(['git','checkout','-q','--','.'],cwd=w+'/repo')
        p = os.path.join(w,'repo',f)
        s = open(p).read()
        if old not in s:
            print(mid, 'PATTERN NOT FOUND'); continue
        open(p,'w').write(s.replace(old,new,1))
        r = subprocess.run(['go','test','-vet=off','-count=1','.'],cwd=w+'/repo',env=env,capture_output=True,text=True)
        ok = r.returncode==0
        d = subprocess.run(['git','diff'],cwd=w+'/repo',capture_output=True,text=True).stdout
        os.makedirs(os.path.join(out,mid),exist_ok=True)
        open(os.path.join(out,mid,'patch.diff'),'w').write(d)
        json.dump({"property":prop,"summary":what,"origin":"self-made (DESIGN appendix B style)","suite_passes":ok},open(os.path.join(out,mid,'meta.json'),'w'),indent=1)
        print(mid, prop, 'suite', 'ok' if ok else 'FAILS: '+r.stdout[-300:])
    finally:
        shutil.rmtree(w)
