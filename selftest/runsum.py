#!/usr/bin/env python3
# summarise the JSON printed by `gosymx run`
import json,sys
t=sys.stdin.read()
if "{" not in t: print(t[:1500]); sys.exit(1)
r=json.loads(t[t.index('{'):])
print('stats',r['Stats']); print('reach',r['Reach']); print('fatal',r['Fatal'],'wall',r['Wall']/1e9,'solverQ',r['SolverQ'])
for c in (r['Cexs'] or [])[:int(sys.argv[1]) if len(sys.argv)>1 else 3]:
    print(json.dumps(c)[:1500])
