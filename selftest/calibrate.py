#!/usr/bin/env python3
# calibrate.py <Cxx> [tier] [timeout_s] [parallel]: runs every work item of the plan's tier on its own
# (single worker) under a timeout and prints wall time, paths and verdict per item, slowest first.
import json,sys,itertools,subprocess,time,concurrent.futures as cf
prop=sys.argv[1]; tier=sys.argv[2] if len(sys.argv)>2 else 'thorough'
tmo=int(sys.argv[3]) if len(sys.argv)>3 else 600; par=int(sys.argv[4]) if len(sys.argv)>4 else 8
pl=json.load(open(f'/verif/plans/{prop}.json'))
items=[]
for h in pl['harnesses']:
    dims=h[tier]; pi=h.get('per_index',{})
    keys=[k for k in dims if k not in pi]
    for combo in itertools.product(*[dims[k] for k in keys]):
        sh=dict(zip(keys,combo))
        if pi:
            # per_index: {dim: countdim} - dim takes one value per index 0..count-1
            (d,cnt),=pi.items()
            for c2 in itertools.product(dims[d],repeat=sh[cnt]):
                s2=dict(sh); 
                for i,x in enumerate(c2): s2[f'{d}{i}']=x
                items.append((h['name'],s2))
        else:
            items.append((h['name'],sh))
def run(it):
    name,sh=it
    shape=','.join(f'{k}={v}' for k,v in sh.items())
    t=time.time()
    try:
        out=subprocess.run(['timeout',str(tmo),'/verif/bin/gosymx','run','-harness',name,'-shape',shape,'-maxpaths','20000000'],capture_output=True,text=True).stdout
        r=json.loads(out[out.index('{'):]); st=r['Stats']; info=f"paths={st['Paths']} cex={len(r['Cexs'] or [])} fatal={r['Fatal'][:60]}"
    except Exception as e:
        info='TIMEOUT/ERR'
    return (time.time()-t,name,shape,info)
with cf.ThreadPoolExecutor(par) as ex: res=list(ex.map(run,items))
res.sort(reverse=True)
tot=sum(r[0] for r in res)
print(f'{prop} {tier}: {len(items)} items, sum of single-worker walls {tot:.0f}s')
for r in res[:25]: print(f'{r[0]:7.1f}s {r[1]} {r[2]} {r[3]}')
