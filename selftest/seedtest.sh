#!/bin/sh
# seedtest.sh <seed-dir> [tier]
#   <seed-dir> holds patch.diff, demo_test.go and meta.json ({"property": "Cxx", ...}).
# Confirms in a scratch copy of /repo (removed afterwards) that the change applies,
# compiles, passes the repository's tests, that the demonstration fails with it and
# passes without it, then runs the property's check against the changed copy.
# Prints one summary line: <id> property=<Cxx> tests=<ok|FAIL> demo_with=<fail|pass> demo_without=<pass|fail> check_exit=<0|1|2>
export GOFLAGS=-mod=mod GOPROXY=off GOSUMDB=off GOTOOLCHAIN=local
D=$(readlink -f "$1"); TIER=${2:-quick}
P=$(python3 -c "import json,sys;print(json.load(open('$D/meta.json'))['property'])")
EXTRA=$(python3 -c "import json,sys;print(' '.join(json.load(open('$D/meta.json')).get('also_check',[])))")
W=$(mktemp -d /tmp/seedtest.XXXXXX)
trap 'rm -rf "$W"' EXIT
cp -r /repo "$W/repo"
cd "$W/repo" && git checkout -q -- . 2>/dev/null
DW0=n/a; DW1=n/a
if [ -f "$D/demo_test.go" ]; then
cp "$D/demo_test.go" zz_seed_demo_test.go
if go test -vet=off -count=1 -run '^TestSeedDemo$' . >/dev/null 2>&1; then DW0=pass; else DW0=fail; fi
fi
if ! git apply "$D/patch.diff" 2>"$W/apply.err"; then echo "$(basename $D) property=$P APPLY-FAILED $(head -1 $W/apply.err)"; exit 3; fi
if [ -f "$D/demo_test.go" ]; then
if go test -vet=off -count=1 -run '^TestSeedDemo$' . >/dev/null 2>&1; then DW1=pass; else DW1=fail; fi
rm -f zz_seed_demo_test.go
fi
if go test -vet=off -count=1 . >/dev/null 2>&1; then T=ok; else T=FAIL; fi
cd /verif
RES=""
for PP in $P $EXTRA; do
  VERIF_REPO="$W/repo" ./check $PP --tier $TIER > "$W/check_$PP.out" 2>&1; RC=$?
  RES="$RES check[$PP]=$RC"
  if [ $RC -eq 1 ]; then grep -m2 "counterexample" "$W/check_$PP.out" | cut -c1-220; fi
  if [ $RC -eq 2 ]; then grep -m3 "INCONCLUSIVE" "$W/check_$PP.out" | cut -c1-300; fi
  # counterexample files written by a run against a changed copy are not findings on /repo
  rm -rf "/verif/replays/$PP"
done
echo "$(basename $D) property=$P tests=$T demo_with=$DW1 demo_without=$DW0$RES"
