#!/usr/bin/env python3
"""Regenerates MANIFEST.json from the table below (claimed checks) and properties.jsonl."""
import json, os
HERE = os.path.dirname(os.path.abspath(__file__))
props = [json.loads(l) for l in open(os.path.join(HERE, 'properties.jsonl'))]

# property id -> (level text, level note, technique)
CLAIMED = json.load(open(os.path.join(HERE, 'claims.json')))

ENV = "GOFLAGS=-mod=mod GOPROXY=off GOSUMDB=off GOTOOLCHAIN=local"
m = {
 "version": 1,
 "setup_cmd": f"cd /verif/engine && {ENV} go build -o /verif/bin/gosymx ./cmd/gosymx && cd /verif && (./check SELF || echo 'WARNING: executor self-validation (./check SELF) did not pass')",
 "hooks": {
  "guard": "verif",
  "enable": "harness files (package flags, //go:build verif) are injected through a go/packages overlay for the engine and `go test -tags verif -overlay` for native replay; /repo carries no hook code",
  "baseline_off_cmd": "cd /repo && go test -vet=off -count=1 -timeout 25m ./...",
  "source_commits": [],
  "add_only": True
 },
 "engines": [{
  "name": "gosymx",
  "path": "/verif/engine",
  "serves_properties": sorted(CLAIMED.keys()),
  "kind_free_text": "bounded symbolic executor for Go SSA (x/tools go/ssa v0.29.0) over the real go-flags functions; path conditions and obligations decided by z3 4.8.12 over QF_BV; counterexamples and sampled path witnesses replayed against the native build"
 }],
 "checks": [],
 "not_applicable": [],
 "notes": "exit 0 = every obligation on every planned shape decided unsat/true; exit 1 = reproduced violation; exit 2 = inconclusive (never reported as held). See DESIGN.md."
}
for p in props:
    pid = p['id']
    if pid in CLAIMED:
        c = CLAIMED[pid]
        m["checks"].append({
            "property_id": pid,
            "quick_cmd": f"./check {pid} --tier quick",
            "thorough_cmd": f"./check {pid} --tier thorough",
            "evidence_file": f"/verif/evidence/{pid}.json",
            "replay_cmd_template": f"./check {pid} --replay {{path}}",
            "engine": "gosymx",
            "level_claimed": {"category": "model_checking", "text": c["text"], "design_ref": c.get("design_ref", "DESIGN.md section 4")},
            "level_note": c["note"],
            "technique": c.get("technique", "bounded symbolic execution of the real Go SSA with SMT (z3, QF_BV) obligations; native replay of counterexamples"),
        })
    else:
        reason = json.load(open(os.path.join(HERE, 'na.json'))).get(pid, "check not yet built in this round (engine exists; harness pending)")
        m["not_applicable"].append({"property_id": pid, "reason": reason})
json.dump(m, open(os.path.join(HERE, 'MANIFEST.json'), 'w'), indent=1)
print("claimed:", sorted(CLAIMED.keys()))
