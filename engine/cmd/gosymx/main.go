// gosymx: bounded symbolic execution of go-flags' SSA with SMT obligations.
package main

import (
	"encoding/json"
	"flag"
	"fmt"
	"os"
	"runtime/debug"
	"runtime/pprof"
	"strconv"
	"strings"

	"gosymx/internal/sx"
)

func envOr(k, d string) string {
	if v := os.Getenv(k); v != "" {
		return v
	}
	return d
}

func main() {
	// the live heap is dominated by the (immutable) SSA program; collect rarely
	debug.SetGCPercent(800)
	// ... but never let the heap run away: near the limit the collector works harder
	debug.SetMemoryLimit(24 << 30)
	if len(os.Args) < 2 {
		fmt.Fprintln(os.Stderr, "usage: gosymx run|check ...")
		os.Exit(2)
	}
	switch os.Args[1] {
	case "run":
		cmdRun(os.Args[2:])
	case "check":
		os.Exit(cmdCheck(os.Args[2:]))
	default:
		fmt.Fprintln(os.Stderr, "unknown subcommand", os.Args[1])
		os.Exit(2)
	}
}

// cmdRun: development entry - run one harness under one shape and print the result.
func cmdRun(args []string) {
	fs := flag.NewFlagSet("run", flag.ExitOnError)
	harness := fs.String("harness", "", "harness function")
	shape := fs.String("shape", "", "k=v,k=v")
	maxPaths := fs.Int("maxpaths", 100000, "path cap")
	known := fs.String("known", "", "comma-separated known-finding predicates")
	witness := fs.Int("witness", 0, "sample every n-th path")
	prof := fs.String("cpuprofile", "", "write cpu profile")
	fs.Parse(args)
	if *prof != "" {
		f, _ := os.Create(*prof)
		pprof.StartCPUProfile(f)
		defer pprof.StopCPUProfile()
	}
	repo := envOr("VERIF_REPO", "/repo")
	p, err := sx.Load(repo, envOr("VERIF_HARNESS", "/verif/harness"))
	if err != nil {
		fmt.Fprintln(os.Stderr, err)
		os.Exit(2)
	}
	w, err := sx.NewWorker(p)
	if err != nil {
		fmt.Fprintln(os.Stderr, err)
		os.Exit(2)
	}
	defer w.Close()
	sh := map[string]int{}
	if *shape != "" {
		for _, kv := range strings.Split(*shape, ",") {
			p := strings.SplitN(kv, "=", 2)
			n, _ := strconv.Atoi(p[1])
			sh[p[0]] = n
		}
	}
	var kn []string
	if *known != "" {
		kn = strings.Split(*known, ",")
	}
	res := w.Run(sx.Item{Harness: *harness, Shape: sh, MaxPaths: *maxPaths, Known: kn, WitnessN: *witness}, nil)
	res.Funcs = nil
	b, _ := json.MarshalIndent(res, "", " ")
	fmt.Println(string(b))
}
