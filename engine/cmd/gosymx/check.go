package main

// check.go: the registered entry point. `gosymx check Cxx --tier quick|thorough`
// plans the work items of a property, explores them on all cores, replays
// counterexamples and path witnesses against the real build, writes
// /verif/evidence/Cxx.json and prints the verdict lines.

import (
	"bufio"
	"crypto/sha1"
	"encoding/json"
	"flag"
	"fmt"
	"os"
	"os/exec"
	"path/filepath"
	"runtime"
	"sort"
	"strconv"
	"strings"
	"sync"
	"time"

	"gosymx/internal/sx"
)

type planHarness struct {
	Name     string           `json:"name"`
	Quick    map[string][]int `json:"quick"`
	Thorough map[string][]int `json:"thorough"`
	// Vary lists parameter names whose values are listed per index ("len" with
	// count parameter "ntok" expands to len0..len{ntok-1}).
	PerIndex     map[string]string `json:"per_index"`
	MaxPaths     int               `json:"maxpaths"`
	MaxSteps     int64             `json:"maxsteps"`
	Witness      int               `json:"witness"`
	RequireReach []string          `json:"require_reach"`
	Note         string            `json:"note"`
	Sorted       bool              `json:"sorted_index"` // per-index values need not be enumerated in every order
}

type plan struct {
	Property    string        `json:"property"`
	Harnesses   []planHarness `json:"harnesses"`
	Assumptions []string      `json:"assumptions"`
	Bounds      string        `json:"bounds"`
}

type knownFinding struct {
	Status    string `json:"status"` // open | fixed
	Property  string `json:"property"`
	Predicate string `json:"predicate"`
	What      string `json:"what"`
	Witness   string `json:"witness"`
	Commit    string `json:"commit"`
}

type replayRec struct {
	Property string           `json:"property"`
	Harness  string           `json:"harness"`
	Shape    map[string]int   `json:"shape"`
	Known    []string         `json:"known"`
	Kind     string           `json:"kind"` // assert panic exit budget witness
	Msg      string           `json:"msg"`
	Values   []sx.ReplayValue `json:"values"`
	Obs      []string         `json:"expect_obs"`
	Reach    []string         `json:"expect_reach"`
}

type replayResult struct {
	File   string   `json:"file"`
	Status string   `json:"status"` // ok | failed | panic | assume | hang | exit
	Failed []string `json:"failed"`
	Panic  string   `json:"panic"`
	Obs    []string `json:"obs"`
	Reach  []string `json:"reach"`
}

func verifDir() string { return envOr("VERIF_DIR", "/verif") }

func expandShapes(h planHarness, tier string) []map[string]int {
	params := h.Quick
	if tier == "thorough" && h.Thorough != nil {
		params = h.Thorough
	}
	names := make([]string, 0, len(params))
	for k := range params {
		names = append(names, k)
	}
	sort.Strings(names)
	// scalar parameters first (those not per-index)
	out := []map[string]int{{}}
	for _, n := range names {
		if _, per := h.PerIndex[n]; per {
			continue
		}
		var next []map[string]int
		for _, m := range out {
			for _, v := range params[n] {
				c := map[string]int{}
				for k, x := range m {
					c[k] = x
				}
				c[n] = v
				next = append(next, c)
			}
		}
		out = next
	}
	for _, n := range names {
		cnt, per := h.PerIndex[n]
		if !per {
			continue
		}
		var next []map[string]int
		for _, m := range out {
			k := m[cnt]
			cur := []map[string]int{m}
			for i := 0; i < k; i++ {
				var nn []map[string]int
				for _, mm := range cur {
					for _, v := range params[n] {
						c := map[string]int{}
						for kk, x := range mm {
							c[kk] = x
						}
						c[n+strconv.Itoa(i)] = v
						nn = append(nn, c)
					}
				}
				cur = nn
			}
			next = append(next, cur...)
		}
		out = next
	}
	return out
}

func shapeString(m map[string]int) string {
	ks := make([]string, 0, len(m))
	for k := range m {
		ks = append(ks, k)
	}
	sort.Strings(ks)
	var sb strings.Builder
	for i, k := range ks {
		if i > 0 {
			sb.WriteByte(',')
		}
		fmt.Fprintf(&sb, "%s=%d", k, m[k])
	}
	return sb.String()
}

func loadKnown(prop string) (open []knownFinding, fixed []knownFinding) {
	f, err := os.Open(filepath.Join(verifDir(), "known_findings.jsonl"))
	if err != nil {
		return
	}
	defer f.Close()
	sc := bufio.NewScanner(f)
	sc.Buffer(make([]byte, 1<<20), 1<<20)
	for sc.Scan() {
		line := strings.TrimSpace(sc.Text())
		if line == "" || strings.HasPrefix(line, "#") {
			continue
		}
		var k knownFinding
		if json.Unmarshal([]byte(line), &k) != nil || k.Property != prop {
			continue
		}
		if k.Status == "open" {
			open = append(open, k)
		} else {
			fixed = append(fixed, k)
		}
	}
	return
}

// runReplays runs the native replay test over the given files.
func runReplays(repo string, files []string, workDir string) (map[string]replayResult, string, error) {
	res := map[string]replayResult{}
	if len(files) == 0 {
		return res, "", nil
	}
	hdir := filepath.Join(verifDir(), "harness")
	overlay := map[string]string{}
	hs, _ := filepath.Glob(filepath.Join(hdir, "*.go"))
	for _, f := range hs {
		overlay[filepath.Join(repo, "zz_verif_"+filepath.Base(f))] = f
	}
	ob, _ := json.Marshal(map[string]interface{}{"Replace": overlay})
	ovPath := filepath.Join(workDir, "overlay.json")
	os.WriteFile(ovPath, ob, 0o644)
	listPath := filepath.Join(workDir, "replay_list.txt")
	os.WriteFile(listPath, []byte(strings.Join(files, "\n")+"\n"), 0o644)
	outPath := filepath.Join(workDir, "replay_out.jsonl")
	os.Remove(outPath)
	var log strings.Builder
	// the replay test exits early on a hang or os.Exit; loop until every file has a result
	for attempt := 0; attempt < len(files)+2; attempt++ {
		cmd := exec.Command("go", "test", "-tags", "verif", "-vet=off", "-count=1", "-overlay", ovPath, "-run", "^TestVerifReplay$", "-timeout", "20m", ".")
		cmd.Dir = repo
		cmd.Env = append(os.Environ(), "GOFLAGS=-mod=mod", "GOPROXY=off", "GOSUMDB=off", "GOTOOLCHAIN=local",
			"VERIF_REPLAY_LIST="+listPath, "VERIF_REPLAY_OUT="+outPath)
		out, err := cmd.CombinedOutput()
		log.Write(out)
		_ = err
		// read results
		done := map[string]bool{}
		if f, e := os.Open(outPath); e == nil {
			sc := bufio.NewScanner(f)
			sc.Buffer(make([]byte, 1<<22), 1<<22)
			for sc.Scan() {
				var r replayResult
				if json.Unmarshal(sc.Bytes(), &r) == nil && r.File != "" {
					res[r.File] = r
					done[r.File] = true
				}
			}
			f.Close()
		}
		var rest []string
		for _, f := range files {
			if _, ok := res[f]; !ok {
				rest = append(rest, f)
			}
		}
		if len(rest) == 0 {
			break
		}
		if len(done) == 0 && attempt > 0 && !strings.Contains(log.String(), "VERIF-REPLAY-START") {
			return res, log.String(), fmt.Errorf("native replay build/run failed")
		}
		os.WriteFile(listPath, []byte(strings.Join(rest, "\n")+"\n"), 0o644)
	}
	return res, log.String(), nil
}

func sameStrings(a, b []string) bool {
	if len(a) != len(b) {
		return false
	}
	for i := range a {
		if a[i] != b[i] {
			return false
		}
	}
	return true
}

func cmdCheck(args []string) int {
	fs := flag.NewFlagSet("check", flag.ExitOnError)
	tier := fs.String("tier", envOr("VERIF_TIER", "quick"), "quick|thorough")
	replayFile := fs.String("replay", "", "replay one counterexample file natively")
	workers := fs.Int("workers", runtime.NumCPU(), "parallel workers")
	only := fs.String("only", "", "run only this harness")
	noReplay := fs.Bool("noreplay", false, "skip native replays (development)")
	var prop string
	if len(args) > 0 && !strings.HasPrefix(args[0], "-") {
		prop = args[0]
		args = args[1:]
	}
	fs.Parse(args)
	if prop == "" {
		fmt.Fprintln(os.Stderr, "usage: gosymx check Cxx [--tier quick|thorough] [--replay file]")
		return 2
	}
	seed, _ := strconv.Atoi(envOr("VERIF_SEED", "0"))
	repo := envOr("VERIF_REPO", "/repo")
	vd := verifDir()
	workDir := filepath.Join(vd, ".work", fmt.Sprintf("%s-%d", prop, os.Getpid()))
	os.MkdirAll(workDir, 0o755)
	defer os.RemoveAll(workDir)
	start := time.Now()

	if *replayFile != "" {
		abs, _ := filepath.Abs(*replayFile)
		rr, log, err := runReplays(repo, []string{abs}, workDir)
		if err != nil {
			fmt.Println(log)
			fmt.Println("INCONCLUSIVE", err)
			return 2
		}
		r := rr[abs]
		b, _ := json.Marshal(r)
		fmt.Println(string(b))
		if r.Status == "failed" || r.Status == "panic" || r.Status == "hang" || r.Status == "exit" {
			fmt.Printf("VIOLATION property=%s replay=%s\n", prop, abs)
			return 1
		}
		return 0
	}

	var pl plan
	pb, err := os.ReadFile(filepath.Join(vd, "plans", prop+".json"))
	if err != nil {
		fmt.Println("INCONCLUSIVE no plan:", err)
		return 2
	}
	if err := json.Unmarshal(pb, &pl); err != nil {
		fmt.Println("INCONCLUSIVE bad plan:", err)
		return 2
	}
	openKF, _ := loadKnown(prop)
	var knownNames []string
	for _, k := range openKF {
		knownNames = append(knownNames, k.Predicate)
	}

	loadStart := time.Now()
	prog, err := sx.Load(repo, filepath.Join(vd, "harness"))
	if err != nil {
		fmt.Println("INCONCLUSIVE cannot load/type-check the tree with the harnesses:", err)
		writeEvidence(prop, *tier, seed, map[string]interface{}{"explanation": "load failed: " + err.Error(), "evaluations": 0, "distinct_nontrivial": 0}, nil, time.Since(start).Seconds(), 0)
		return 2
	}
	loadTime := time.Since(loadStart)

	var items []sx.Item
	reqReach := map[string][]string{}
	for _, h := range pl.Harnesses {
		if *only != "" && h.Name != *only {
			continue
		}
		reqReach[h.Name] = h.RequireReach
		for _, sh := range expandShapes(h, *tier) {
			mp := h.MaxPaths
			if mp == 0 {
				mp = 200000
			}
			items = append(items, sx.Item{Harness: h.Name, Shape: sh, MaxPaths: mp, Known: knownNames, WitnessN: h.Witness, MaxSteps: h.MaxSteps})
		}
	}
	nw := *workers
	if nw > len(items) {
		nw = len(items)
	}
	if nw < 1 {
		nw = 1
	}
	obligDir := ""
	if *tier == "thorough" || os.Getenv("VERIF_CROSS") != "" {
		obligDir = filepath.Join(workDir, "oblig")
		os.MkdirAll(obligDir, 0o755)
	}
	// job queue with work stealing: a worker whose subtree is large donates
	// pending decision prefixes when other workers are idle
	var (
		qmu     sync.Mutex
		qcond   = sync.NewCond(&qmu)
		queue   []sx.Item
		idle    int
		results []sx.ItemResult
		fatals  []string
		done    bool
	)
	queue = append(queue, items...)
	sharing := &sx.Sharing{
		Idle: func() bool {
			qmu.Lock()
			defer qmu.Unlock()
			return idle > 0 && len(queue) == 0
		},
		Donate: func(its []sx.Item) {
			qmu.Lock()
			queue = append(queue, its...)
			qmu.Unlock()
			qcond.Broadcast()
		},
	}
	var wg sync.WaitGroup
	for i := 0; i < nw; i++ {
		wg.Add(1)
		go func() {
			defer wg.Done()
			w, err := sx.NewWorker(prog)
			if err != nil {
				qmu.Lock()
				fatals = append(fatals, err.Error())
				nw--
				qmu.Unlock()
				qcond.Broadcast()
				return
			}
			w.ObligDir = obligDir
			defer w.Close()
			for {
				qmu.Lock()
				for len(queue) == 0 && !done {
					idle++
					if idle >= nw {
						done = true
						qcond.Broadcast()
						break
					}
					qcond.Wait()
					idle--
				}
				if len(queue) == 0 {
					qmu.Unlock()
					return
				}
				it := queue[0]
				queue = queue[1:]
				qmu.Unlock()
				r := w.Run(it, sharing)
				qmu.Lock()
				results = append(results, r)
				qmu.Unlock()
			}
		}()
	}
	wg.Wait()
	if len(fatals) > 0 && len(results) == 0 {
		fmt.Println("INCONCLUSIVE no worker could start:", fatals)
		return 2
	}

	// ---- aggregate ----
	var tot sx.PathStats
	inconclusive := map[string]int{}
	cuts := map[string]int{}
	reach := map[string]map[string]int{}
	funcs := map[string]bool{}
	stubs := map[string]int{}
	var solverQ int
	var solverTime time.Duration
	var cexFiles []string
	cexMeta := map[string]replayRec{}
	var witFiles []string
	witMeta := map[string]replayRec{}
	kfHits := map[string]int{}
	witSeq := 0
	terms := 0
	for _, f := range fatals {
		inconclusive["worker: "+f]++
	}
	os.MkdirAll(filepath.Join(vd, "replays", prop), 0o755)
	witDir := filepath.Join(workDir, "wit")
	os.MkdirAll(witDir, 0o755)
	for _, r := range results {
		if r.Item.Harness == "" {
			continue
		}
		if r.Fatal != "" {
			inconclusive[r.Item.Harness+": "+r.Fatal]++
		}
		s := r.Stats
		if os.Getenv("VERIF_VERBOSE") != "" {
			fmt.Printf("  item %s %s: paths=%d forks=%d steps=%d solverQ=%d solver=%.1fs dom=%d wall=%.1fs\n", r.Item.Harness, shapeString(r.Item.Shape), s.Paths, s.Forks, s.Steps, r.SolverQ, r.SolverTime.Seconds(), s.DomDecided, r.Wall.Seconds())
		}
		tot.Paths += s.Paths
		tot.Infeasible += s.Infeasible
		tot.Forks += s.Forks
		tot.Steps += s.Steps
		tot.ObligationsQ += s.ObligationsQ
		tot.ObligationsU += s.ObligationsU
		tot.ObligationsC += s.ObligationsC
		tot.ObligationsSat += s.ObligationsSat
		tot.ObligUnknown += s.ObligUnknown
		tot.FeasQ += s.FeasQ
		tot.FeasUnknown += s.FeasUnknown
		tot.BudgetOverruns += s.BudgetOverruns
		tot.DomDecided += s.DomDecided
		tot.DomChecked += s.DomChecked
		tot.DomDisagree += s.DomDisagree
		for k, v := range s.Unsupported {
			inconclusive[r.Item.Harness+": "+k] += v
		}
		for k, v := range s.Cuts {
			cuts[r.Item.Harness+": "+k] += v
		}
		for _, e := range r.SolverErrs {
			inconclusive["solver: "+e]++
		}
		if reach[r.Item.Harness] == nil {
			reach[r.Item.Harness] = map[string]int{}
		}
		for k, v := range r.Reach {
			reach[r.Item.Harness][k] += v
		}
		for _, f := range r.Funcs {
			funcs[f] = true
		}
		for k, v := range r.Stubs {
			stubs[k] += v
		}
		for k, v := range r.KnownHits {
			kfHits[k] += v
		}
		solverQ += r.SolverQ
		solverTime += r.SolverTime
		if r.Terms > terms {
			terms = r.Terms
		}
		for _, c := range r.Cexs {
			rec := replayRec{Property: prop, Harness: r.Item.Harness, Shape: r.Item.Shape, Known: r.Item.Known, Kind: c.Kind, Msg: c.Msg, Values: c.Values, Obs: c.Obs}
			b, _ := json.MarshalIndent(rec, "", " ")
			h := sha1.Sum(b)
			name := filepath.Join(vd, "replays", prop, fmt.Sprintf("%s_%x.json", r.Item.Harness, h[:6]))
			os.WriteFile(name, b, 0o644)
			cexFiles = append(cexFiles, name)
			cexMeta[name] = rec
		}
		for i, wt := range r.Witnesses {
			rec := replayRec{Property: prop, Harness: r.Item.Harness, Shape: r.Item.Shape, Known: r.Item.Known, Kind: "witness", Values: wt.Values, Obs: wt.Obs, Reach: wt.Reach}
			b, _ := json.Marshal(rec)
			witSeq++
			name := filepath.Join(witDir, fmt.Sprintf("%s_%s_%d_%d.json", r.Item.Harness, shapeString(r.Item.Shape), i, witSeq))
			os.WriteFile(name, b, 0o644)
			witFiles = append(witFiles, name)
			witMeta[name] = rec
		}
	}
	// cap the number of witnesses replayed (seed selects the sample)
	maxWit := 200
	if *tier == "thorough" {
		maxWit = 1000
	}
	if prop == "SELF" {
		maxWit = 1 << 30 // self-validation replays every path
	}
	if len(witFiles) > maxWit {
		// stratified by harness, so that every harness keeps witnesses
		sort.Strings(witFiles)
		byH := map[string][]string{}
		var hs []string
		for _, f := range witFiles {
			h := witMeta[f].Harness
			if _, ok := byH[h]; !ok {
				hs = append(hs, h)
			}
			byH[h] = append(byH[h], f)
		}
		quota := maxWit / len(hs)
		if quota < 1 {
			quota = 1
		}
		var sel []string
		for _, h := range hs {
			fs := byH[h]
			if len(fs) <= quota {
				sel = append(sel, fs...)
				continue
			}
			step := len(fs) / quota
			n := 0
			for i := seed % (step + 1); i < len(fs) && n < quota; i += step + 1 {
				sel = append(sel, fs[i])
				n++
			}
		}
		witFiles = sel
	}
	if len(cexFiles) > 40 {
		cexFiles = cexFiles[:40]
	}

	// vacuity
	for h, labels := range reqReach {
		for _, l := range labels {
			if reach[h][l] == 0 {
				inconclusive[fmt.Sprintf("vacuity: %s never reached label %q", h, l)]++
			}
		}
	}

	// ---- native replays ----
	violations := 0
	var violationLines []string
	var knownLines []string
	tracesValidated := 0
	replayLog := ""
	if !*noReplay {
		var kfFiles []string
		for _, k := range openKF {
			if k.Witness != "" {
				kfFiles = append(kfFiles, filepath.Join(vd, k.Witness))
			}
		}
		all := append(append(append([]string{}, cexFiles...), witFiles...), kfFiles...)
		rr, log, err := runReplays(repo, all, workDir)
		replayLog = log
		if err != nil {
			inconclusive["native replay: "+err.Error()]++
		}
		for _, f := range cexFiles {
			r, ok := rr[f]
			m := cexMeta[f]
			switch {
			case !ok:
				inconclusive["replay produced no result for "+filepath.Base(f)]++
			case r.Status == "failed" || r.Status == "panic" || r.Status == "hang" || r.Status == "exit":
				reproduced := false
				switch m.Kind {
				case "assert":
					for _, x := range r.Failed {
						if x == m.Msg {
							reproduced = true
						}
					}
					if r.Status == "panic" || r.Status == "hang" {
						reproduced = true
					}
				default:
					reproduced = true
				}
				if reproduced {
					violations++
					violationLines = append(violationLines, fmt.Sprintf("VIOLATION property=%s replay=%s", prop, f))
					fmt.Printf("  counterexample %s: %s [%s] reproduced natively (%s %v %s)\n", filepath.Base(f), m.Msg, m.Kind, r.Status, r.Failed, r.Panic)
				} else {
					inconclusive[fmt.Sprintf("SPURIOUS counterexample (native failed differently) %s: %s", filepath.Base(f), m.Msg)]++
				}
			default:
				inconclusive[fmt.Sprintf("SPURIOUS counterexample (not reproduced natively: %s) %s: %s", r.Status, filepath.Base(f), m.Msg)]++
				os.Remove(f)
			}
		}
		for _, f := range witFiles {
			r, ok := rr[f]
			m := witMeta[f]
			if !ok {
				inconclusive["witness replay produced no result"]++
				continue
			}
			if r.Status == "ok" && sameStrings(r.Obs, m.Obs) && sameStrings(r.Reach, m.Reach) {
				tracesValidated++
			} else {
				b, _ := json.Marshal(m)
				keep := filepath.Join(vd, "replays", prop, "MISMATCH_"+filepath.Base(f))
				os.WriteFile(keep, b, 0o644)
				inconclusive[fmt.Sprintf("translator validation: native run of path witness disagrees (%s; native obs %v reach %v, predicted obs %v reach %v) file %s", r.Status, r.Obs, r.Reach, m.Obs, m.Reach, keep)]++
			}
		}
		for _, k := range openKF {
			if k.Witness == "" {
				continue
			}
			f := filepath.Join(vd, k.Witness)
			r := rr[f]
			if r.Status == "failed" || r.Status == "panic" || r.Status == "hang" || r.Status == "exit" {
				knownLines = append(knownLines, fmt.Sprintf("KNOWN-FINDING: property=%s %s", prop, k.What))
			}
		}
	} else if len(cexFiles) > 0 {
		for _, f := range cexFiles {
			inconclusive["unreplayed counterexample "+f+": "+cexMeta[f].Msg]++
		}
	}
	// a listed predicate that no harness consults would silently suppress nothing; flag it
	for _, k := range openKF {
		if kfHits[k.Predicate] == 0 {
			inconclusive["known-finding predicate not consulted by any harness: "+k.Predicate]++
		}
	}

	// ---- cross-solver re-decision of obligation queries ----
	cross := map[string]interface{}{}
	if obligDir != "" {
		cross = crossCheck(obligDir, inconclusive)
	}

	// ---- evidence ----
	var funcList, flagsFuncs, stdFuncs []string
	for f := range funcs {
		funcList = append(funcList, f)
	}
	sort.Strings(funcList)
	for _, f := range funcList {
		if strings.Contains(f, "jessevdk/go-flags") {
			if !strings.Contains(f, ".H_") && !strings.Contains(f, ".ref") && !strings.Contains(f, "go-flags.V)") {
				flagsFuncs = append(flagsFuncs, strings.ReplaceAll(f, "github.com/jessevdk/go-flags", "flags"))
			}
		} else {
			stdFuncs = append(stdFuncs, f)
		}
	}
	var stubList []string
	for k := range stubs {
		if !strings.Contains(k, "go-flags.V)") {
			stubList = append(stubList, k)
		}
	}
	sort.Strings(stubList)
	var samples []interface{}
	for _, f := range witFiles {
		if len(samples) >= 5 {
			break
		}
		m := witMeta[f]
		samples = append(samples, map[string]interface{}{"harness": m.Harness, "shape": m.Shape, "inputs": renderValues(m.Values), "observed": m.Obs, "reach": m.Reach})
	}
	for _, f := range cexFiles {
		if len(samples) >= 8 {
			break
		}
		m := cexMeta[f]
		samples = append(samples, map[string]interface{}{"harness": m.Harness, "shape": m.Shape, "inputs": renderValues(m.Values), "violates": m.Msg})
	}
	if len(samples) == 0 {
		for _, it := range items {
			samples = append(samples, map[string]interface{}{"harness": it.Harness, "shape": it.Shape, "note": "all byte contents symbolic; no witness sampled"})
			if len(samples) >= 3 {
				break
			}
		}
	}
	var incList []string
	for k, v := range inconclusive {
		incList = append(incList, fmt.Sprintf("%s (x%d)", k, v))
	}
	sort.Strings(incList)
	var cutList []string
	for k, v := range cuts {
		cutList = append(cutList, fmt.Sprintf("%s (x%d)", k, v))
	}
	sort.Strings(cutList)
	shapesRun := map[string][]string{}
	for _, it := range items {
		if len(shapesRun[it.Harness]) < 400 {
			shapesRun[it.Harness] = append(shapesRun[it.Harness], shapeString(it.Shape))
		}
	}
	cov := map[string]interface{}{
		"states":                        tot.Forks + tot.Paths,
		"transitions":                   tot.Steps,
		"traces_validated_against_impl": tracesValidated,
		"samples":                       samples,
		"paths":                         tot.Paths,
		"infeasible_paths_pruned":       tot.Infeasible,
		"work_items":                    len(items),
		"feasibility_queries":           tot.FeasQ,
		"feasibility_unknown":           tot.FeasUnknown,
		"feasibility_by_byte_domain":    tot.DomDecided,
		"byte_domain_rechecked_by_z3":   tot.DomChecked,
		"byte_domain_disagreements":     tot.DomDisagree,
		"obligation_queries":            tot.ObligationsQ,
		"obligations_unsat":             tot.ObligationsU,
		"obligations_concrete_true":     tot.ObligationsC,
		"obligations_sat":               tot.ObligationsSat,
		"obligations_unknown":           tot.ObligUnknown,
		"solver_queries":                solverQ,
		"solver_time_s":                 solverTime.Seconds(),
		"solver":                        "z3 4.8.12 (deciding); see cross_solver",
		"cross_solver":                  cross,
		"functions_encoded_goflags":     flagsFuncs,
		"functions_encoded_stdlib":      stdFuncs,
		"stubs":                         stubList,
		"bounds":                        pl.Bounds,
		"shapes_run":                    shapesRun,
		"reach_labels":                  reach,
		"inconclusive":                  incList,
		"cuts":                          cutList,
		"known_findings_open":           knownNames,
		"known_findings_reported":       knownLines,
		"load_time_s":                   loadTime.Seconds(),
		"counterexamples_reproduced":    violations,
		"exhaustive":                    false,
		"explanation":                   "bounded symbolic execution of the SSA of the real functions; every byte of every symbolic string is a solver variable; verdict per shape is the solver's",
	}
	writeEvidence(prop, *tier, seed, cov, pl.Assumptions, time.Since(start).Seconds(), violations)

	fmt.Printf("property=%s tier=%s items=%d paths=%d obligations(query/unsat/concrete)=%d/%d/%d feas_queries=%d solver=%.1fs traces_validated=%d wall=%.1fs\n",
		prop, *tier, len(items), tot.Paths, tot.ObligationsQ, tot.ObligationsU, tot.ObligationsC, tot.FeasQ, solverTime.Seconds(), tracesValidated, time.Since(start).Seconds())
	for _, l := range knownLines {
		fmt.Println(l)
	}
	if violations > 0 {
		for _, l := range violationLines {
			fmt.Println(l)
		}
		return 1
	}
	if len(inconclusive) > 0 {
		for _, l := range incList {
			fmt.Println("INCONCLUSIVE", l)
		}
		if os.Getenv("VERIF_VERBOSE") != "" {
			fmt.Println(replayLog)
		}
		return 2
	}
	fmt.Printf("HELD property=%s within the stated bounds\n", prop)
	return 0
}

func renderValues(vs []sx.ReplayValue) []string {
	var out []string
	for _, v := range vs {
		switch v.Kind {
		case "string":
			b := make([]byte, len(v.Bytes))
			for i, x := range v.Bytes {
				b[i] = byte(x)
			}
			out = append(out, fmt.Sprintf("string %q", string(b)))
		default:
			out = append(out, fmt.Sprintf("%s %d", v.Kind, v.Int))
		}
	}
	return out
}

func writeEvidence(prop, tier string, seed int, cov map[string]interface{}, assumptions []string, wall float64, violations int) {
	ev := map[string]interface{}{
		"property_id": prop,
		"tier":        tier,
		"seed":        seed,
		"level":       "model_checking",
		"coverage":    cov,
		"assumptions": assumptions,
		"wall_s":      wall,
		"violations":  violations,
	}
	if assumptions == nil {
		ev["assumptions"] = []string{}
	}
	b, _ := json.MarshalIndent(ev, "", " ")
	dir := filepath.Join(verifDir(), "evidence")
	os.MkdirAll(dir, 0o755)
	os.WriteFile(filepath.Join(dir, prop+".json"), b, 0o644)
}

// crossCheck re-decides the logged obligation queries with z3 5.1.0 and cvc5.
func crossCheck(dir string, inconclusive map[string]int) map[string]interface{} {
	files, _ := filepath.Glob(filepath.Join(dir, "*.smt2"))
	sort.Strings(files)
	maxN := 300
	if len(files) > maxN {
		step := len(files) / maxN
		var sel []string
		for i := 0; i < len(files); i += step {
			sel = append(sel, files[i])
		}
		files = sel
	}
	type sv struct {
		name string
		args []string
	}
	solvers := []sv{{"z3-new", []string{"-T:60"}}, {"cvc5", []string{"--tlimit=60000"}}}
	out := map[string]interface{}{"queries_rechecked": len(files)}
	var mu sync.Mutex
	for _, s := range solvers {
		if _, err := exec.LookPath(s.name); err != nil {
			out[s.name] = "not available"
			continue
		}
		agree, disagree, unknown := 0, 0, 0
		var wg sync.WaitGroup
		sem := make(chan struct{}, runtime.NumCPU())
		for _, f := range files {
			wg.Add(1)
			sem <- struct{}{}
			go func(f string) {
				defer wg.Done()
				defer func() { <-sem }()
				o, _ := exec.Command(s.name, append(s.args, f)...).CombinedOutput()
				txt := strings.TrimSpace(string(o))
				mu.Lock()
				defer mu.Unlock()
				want := "unsat"
				if strings.HasSuffix(f, "_sat.smt2") {
					want = "sat"
				} else if strings.HasSuffix(f, "_unknown.smt2") {
					want = ""
				}
				first := strings.SplitN(txt, "\n", 2)[0]
				switch {
				case first == "sat" || first == "unsat":
					if want == "" || first == want {
						agree++
					} else {
						disagree++
						inconclusive["cross-solver "+s.name+" DISAGREES on "+filepath.Base(f)+": "+first+" vs "+want]++
					}
				case strings.Contains(txt, "error"):
					disagree++
					inconclusive["cross-solver "+s.name+" error on "+filepath.Base(f)+": "+txt]++
				default:
					unknown++
				}
			}(f)
		}
		wg.Wait()
		out[s.name] = map[string]int{"agree": agree, "disagree_or_error": disagree, "unknown": unknown}
	}
	return out
}
