package sx

// interp.go: the SSA interpreter proper (frames, instructions, calls).

import (
	"fmt"
	"go/constant"
	"go/token"
	"go/types"
	"os"
	"strings"

	"golang.org/x/tools/go/ssa"
)

type opnd struct {
	slot int32 // >= 0: local slot; -1: constant in val; -2: free variable index in idx; -3: absent
	idx  int32
	val  Val
}

type cinstr struct {
	ins ssa.Instruction
	ops []opnd
	dst int32
}

type fnInfo struct {
	slots     map[ssa.Value]int
	n         int
	code      [][]cinstr // per block
	intrinsic func(in *Interp, fr *frame, args []Val) Val
	name      string
	fn        *ssa.Function
	epoch     int // item epoch in which calls was last reset
	calls     int
}

type deferred struct {
	fn   Val
	args []Val
}

type frame struct {
	in        *Interp
	fn        *ssa.Function
	info      *fnInfo
	locals    []Val
	env       []Val
	block     *ssa.BasicBlock
	prev      *ssa.BasicBlock
	defers    []deferred
	result    Val
	panicking bool
	panicVal  goPanic
	caller    *frame
}

// goPanic is a Go-level panic travelling through interpreted frames.
type goPanic struct {
	val Val
}

// RuntimePanic is the value of an implicit run-time panic.
type RuntimePanic struct{ msg string }

type Interp struct {
	prog       *ssa.Program
	mainPkg    *ssa.Package
	tt         *TermTable
	solver     *Solver
	globals    map[*ssa.Global]*Val
	fnInfos    map[*ssa.Function]*fnInfo
	zeroCache  map[types.Type]Val
	constCache map[*ssa.Const]Val
	intrinsics map[string]func(in *Interp, fr *frame, args []Val) Val
	implCache  map[[2]types.Type]bool
	initMode   bool
	mapNondet  bool

	// exploration state
	prefix         []pfx
	trace          []decisionRec
	pc             []*Term
	pcSet          map[int]bool
	pending        []pendingPath
	model          Model
	stats          PathStats
	cexs           []Counterexample
	cexCount       map[string]int
	maxCexPerKey   int
	maxPaths       int
	maxSteps       int64
	feasTimeoutMs  int
	obligTimeoutMs int
	obligLog       func([]*Term, Result)
	exitExpected   bool

	// per-path state
	steps        int64
	nondet       []NondetRec
	obs          []obsRec
	varCounter   int
	env          map[string]Str
	stdout       []Str
	stderr       []Str
	reachPath    []string
	termWidth    int
	assumedKnown []string
	callDepth    int
	timeCounter  int

	// per-item
	shape         map[string]int
	reach         map[string]int
	funcsSeen     map[*ssa.Function]bool
	stubsSeen     map[string]int
	witnesses     []Witness
	witnessEvery  int
	knownFindings map[string]bool
	kfHits        map[string]int

	tagOverride        map[tagKey]Str
	cur                *frame
	dom                map[int]*byteDom
	multi              map[int]bool
	epoch              uint32
	noDom              bool
	sharing            *Sharing
	curItem            Item
	startPrefix        []pfx
	lastReset          int
	traceN             int
	itemEpoch          int
	touched            []*fnInfo
	domCheckEvery      int
	osStdout, osStderr *Val
	rtypePtr           types.Type
	errorType          types.Type
}

type Witness struct {
	Values []ReplayValue
	Obs    []string
	Reach  []string
}

func NewInterp(prog *ssa.Program, mainPkg *ssa.Package) *Interp {
	in := &Interp{
		prog: prog, mainPkg: mainPkg,
		tt:             NewTermTable(),
		globals:        map[*ssa.Global]*Val{},
		fnInfos:        map[*ssa.Function]*fnInfo{},
		zeroCache:      map[types.Type]Val{},
		constCache:     map[*ssa.Const]Val{},
		implCache:      map[[2]types.Type]bool{},
		pcSet:          map[int]bool{},
		cexCount:       map[string]int{},
		maxCexPerKey:   2,
		maxSteps:       3_000_000,
		feasTimeoutMs:  10000,
		obligTimeoutMs: 60000,
		reach:          map[string]int{},
		funcsSeen:      map[*ssa.Function]bool{},
		stubsSeen:      map[string]int{},
		shape:          map[string]int{},
		kfHits:         map[string]int{},
		knownFindings:  map[string]bool{},
		witnessEvery:   0,
		domCheckEvery:  64,
		noDom:          os.Getenv("GOSYMX_NODOM") != "",
	}
	in.errorType = types.Universe.Lookup("error").Type()
	in.intrinsics = map[string]func(in *Interp, fr *frame, args []Val) Val{}
	registerIntrinsics(in)
	registerReflect(in)
	return in
}

func (in *Interp) unsupported(msg string) pathEnd {
	if os.Getenv("GOSYMX_DEBUG") != "" {
		msg += " @ " + in.dumpStack(in.cur)
	}
	return pathEnd{endUnsupported, msg}
}

func (in *Interp) info(fn *ssa.Function) *fnInfo {
	if fi, ok := in.fnInfos[fn]; ok {
		return fi
	}
	fi := &fnInfo{slots: map[ssa.Value]int{}}
	n := 0
	for _, p := range fn.Params {
		fi.slots[p] = n
		n++
	}
	for _, b := range fn.Blocks {
		for _, ins := range b.Instrs {
			if v, ok := ins.(ssa.Value); ok {
				fi.slots[v] = n
				n++
			}
		}
	}
	fi.n = n
	fi.code = make([][]cinstr, len(fn.Blocks))
	var rands []*ssa.Value
	for bi, b := range fn.Blocks {
		cis := make([]cinstr, len(b.Instrs))
		for ii, ins := range b.Instrs {
			ci := cinstr{ins: ins, dst: -1}
			if v, ok := ins.(ssa.Value); ok {
				ci.dst = int32(fi.slots[v])
			}
			rands = ins.Operands(rands[:0])
			ci.ops = make([]opnd, len(rands))
			for oi, r := range rands {
				ci.ops[oi] = in.compileOperand(fn, fi, *r)
			}
			cis[ii] = ci
		}
		fi.code[bi] = cis
	}
	name := fn.String()
	if fn.Origin() != nil {
		name = fn.Origin().String()
	}
	fi.name = name
	fi.fn = fn
	fi.intrinsic = in.intrinsics[name]
	in.fnInfos[fn] = fi
	return fi
}

func (in *Interp) compileOperand(fn *ssa.Function, fi *fnInfo, v ssa.Value) opnd {
	switch x := v.(type) {
	case nil:
		return opnd{slot: -3}
	case *ssa.Const:
		// constants of unsupported types are materialised lazily (panic at use)
		var val Val
		ok := func() (ok bool) {
			defer func() {
				if r := recover(); r != nil {
					ok = false
				}
			}()
			val = in.constVal(x)
			return true
		}()
		if !ok {
			return opnd{slot: -4, val: x}
		}
		return opnd{slot: -1, val: val}
	case *ssa.Global:
		return opnd{slot: -1, val: in.global(x)}
	case *ssa.Function:
		return opnd{slot: -1, val: x}
	case *ssa.Builtin:
		return opnd{slot: -1, val: x}
	case *ssa.FreeVar:
		for i, fv := range fn.FreeVars {
			if fv == x {
				return opnd{slot: -2, idx: int32(i)}
			}
		}
		panic("free var not found")
	}
	i, ok := fi.slots[v]
	if !ok {
		panic(fmt.Sprintf("no slot for %T %s in %s", v, v.Name(), fn))
	}
	return opnd{slot: int32(i)}
}

// op returns the i-th operand of the instruction.
func (fr *frame) op(ci *cinstr, i int) Val {
	o := &ci.ops[i]
	if o.slot >= 0 {
		return fr.locals[o.slot]
	}
	switch o.slot {
	case -1:
		return o.val
	case -2:
		return fr.env[o.idx]
	case -4:
		return fr.in.constVal(o.val.(*ssa.Const))
	}
	return nil
}

func (fr *frame) has(ci *cinstr, i int) bool { return ci.ops[i].slot != -3 }

func (in *Interp) global(g *ssa.Global) *Val {
	if p, ok := in.globals[g]; ok {
		return p
	}
	p := new(Val)
	*p = in.zero(g.Type().(*types.Pointer).Elem())
	in.globals[g] = p
	return p
}

func (in *Interp) constVal(c *ssa.Const) Val {
	if v, ok := in.constCache[c]; ok {
		return v
	}
	v := in.constVal0(c)
	in.constCache[c] = v
	return v
}

func (in *Interp) constVal0(c *ssa.Const) Val {
	if c.Value == nil {
		return in.zero(c.Type())
	}
	t := c.Type().Underlying()
	if b, ok := t.(*types.Basic); ok {
		switch {
		case b.Info()&types.IsBoolean != 0:
			return in.tt.Bool(constant.BoolVal(c.Value))
		case b.Info()&types.IsInteger != 0:
			w := in.intWidth(b)
			if i, ok := constant.Int64Val(constant.ToInt(c.Value)); ok {
				return in.tt.BV(w, uint64(i))
			}
			u, _ := constant.Uint64Val(constant.ToInt(c.Value))
			return in.tt.BV(w, u)
		case b.Info()&types.IsFloat != 0:
			f, _ := constant.Float64Val(c.Value)
			if b.Kind() == types.Float32 {
				return FloatV{f: float64(float32(f)), bits: 32}
			}
			return FloatV{f: f, bits: 64}
		case b.Info()&types.IsString != 0:
			return Str{s: constant.StringVal(c.Value)}
		}
	}
	panic(in.unsupported("constant of type " + c.Type().String()))
}

func (fr *frame) get(v ssa.Value) Val {
	switch x := v.(type) {
	case *ssa.Const:
		return fr.in.constVal(x)
	case *ssa.Global:
		return fr.in.global(x)
	case *ssa.Function:
		return x
	case *ssa.Builtin:
		return x
	case *ssa.FreeVar:
		for i, fv := range fr.fn.FreeVars {
			if fv == x {
				return fr.env[i]
			}
		}
		panic("free var not found")
	}
	i, ok := fr.info.slots[v]
	if !ok {
		panic(fmt.Sprintf("no slot for %T %s in %s", v, v.Name(), fr.fn))
	}
	return fr.locals[i]
}

func (fr *frame) set(v ssa.Value, x Val) {
	fr.locals[fr.info.slots[v]] = x
}

func (in *Interp) runtimePanic(msg string) goPanic {
	return goPanic{RuntimePanic{msg}}
}

func (in *Interp) panicString(v Val) string {
	switch x := v.(type) {
	case RuntimePanic:
		return "runtime error: " + x.msg
	case Iface:
		if x.t == nil {
			return "nil"
		}
		if s, ok := x.v.(Str); ok {
			return x.t.String() + "(" + s.String() + ")"
		}
		if _, ok := x.v.(RuntimePanic); ok {
			return in.panicString(x.v)
		}
		// error values: try Error()
		if types.Implements(x.t, in.errorType.Underlying().(*types.Interface)) {
			func() {
				defer func() { recover() }()
				r := in.invokeMethod(nil, x, "Error", nil)
				if s, ok := r.(Str); ok {
					v = s
				}
			}()
			if s, ok := v.(Str); ok {
				return x.t.String() + ": " + s.String()
			}
		}
		return x.t.String()
	case Str:
		return x.String()
	}
	return fmt.Sprintf("%T", v)
}

// ---- calls ----

// Call invokes a function value with args.
func (in *Interp) Call(caller *frame, fv Val, args []Val) Val {
	switch f := fv.(type) {
	case *ssa.Function:
		return in.callFunction(caller, f, args, nil)
	case *Closure:
		return in.callFunction(caller, f.fn, args, f.env)
	case *ssa.Builtin:
		return in.callBuiltin(caller, f, args)
	case *NativeFunc:
		return f.fn(in, args)
	case FuncNil:
		panic(in.runtimePanic("invalid memory address or nil pointer dereference (nil func call)"))
	}
	panic(fmt.Sprintf("call of non-function %T", fv))
}

func (in *Interp) callFunction(caller *frame, fn *ssa.Function, args []Val, env []Val) Val {
	fi := in.info(fn)
	name := fi.name
	if fi.epoch != in.itemEpoch {
		fi.epoch = in.itemEpoch
		fi.calls = 0
		in.touched = append(in.touched, fi)
	}
	fi.calls++
	if fi.intrinsic != nil {
		if r := fi.intrinsic(in, caller, args); r != notHandled {
			return r
		}
	}
	if in.initMode && fn.Pkg != nil && !initAllow[fn.Pkg.Pkg.Path()] {
		return in.zeroResult(fn.Signature)
	}
	if fn.Blocks == nil {
		if in.initMode {
			return in.zeroResult(fn.Signature)
		}
		panic(in.unsupported("external function " + name))
	}
	if in.initMode && fn.Pkg != nil && fn.Name() == "init" && fn.Signature.Recv() == nil {
		if !in.initAllowed(fn.Pkg.Pkg.Path()) {
			return nil
		}
	}
	if traceCalls {
		in.traceN++
		if in.traceN < 3000 {
			fmt.Fprintf(os.Stderr, "%*s%s\n", in.callDepth, "", name)
		}
	}
	in.callDepth++
	if in.callDepth > 400 {
		panic(pathEnd{endBudget, "call depth > 400 in " + name})
	}
	fr := &frame{in: in, fn: fn, info: fi, locals: make([]Val, fi.n), env: env, caller: caller}
	for i := range fn.Params {
		fr.locals[i] = args[i]
	}
	fr.block = fn.Blocks[0]
	saved := in.cur
	in.cur = fr
	for fr.block != nil {
		in.runFrame(fr)
	}
	in.cur = saved
	in.callDepth--
	return fr.result
}

func (in *Interp) zeroResult(sig *types.Signature) Val {
	switch sig.Results().Len() {
	case 0:
		return nil
	case 1:
		return in.zero(sig.Results().At(0).Type())
	}
	return in.zero(sig.Results())
}

// notHandled is returned by an intrinsic that declines a call: the real body
// is interpreted instead.
type notHandledT struct{}

var notHandled Val = notHandledT{}

var initAllow = map[string]bool{
	"errors": true, "io": true, "bufio": true, "bytes": true, "strings": true, "strconv": true,
	"unicode": true, "unicode/utf8": true, "sort": true, "slices": true, "cmp": true, "path": true,
	"math": true, "math/bits": true, "internal/stringslite": true, "internal/bytealg": false,
	"github.com/jessevdk/go-flags": true, "unicode/utf16": true, "internal/itoa": true, "time": true,
}

func (in *Interp) initAllowed(path string) bool { return initAllow[path] }

// runFrame executes the frame until it returns or a panic unwinds past it.
func (in *Interp) runFrame(fr *frame) {
	defer func() {
		if fr.block == nil {
			return // normal return
		}
		r := recover()
		if r == nil {
			return
		}
		gp, ok := r.(goPanic)
		if !ok {
			panic(r) // engine-level abort
		}
		fr.panicking = true
		fr.panicVal = gp
		in.runDefers(fr)
		if fr.panicking {
			in.callDepth--
			panic(fr.panicVal)
		}
		// recovered
		if fr.fn.Recover != nil {
			fr.block = fr.fn.Recover
		} else {
			fr.block = nil
			fr.result = in.zeroResult(fr.fn.Signature)
		}
	}()
	for {
		code := fr.info.code[fr.block.Index]
		for i := range code {
			in.steps++
			if in.steps > in.maxSteps {
				panic(pathEnd{endBudget, fr.fn.String()})
			}
			switch in.exec(fr, &code[i]) {
			case kReturn:
				fr.block = nil
				return
			case kJump:
				goto next
			}
		}
		panic("block fell through: " + fr.fn.String())
	next:
	}
}

func (in *Interp) runDefers(fr *frame) {
	for len(fr.defers) > 0 {
		d := fr.defers[len(fr.defers)-1]
		fr.defers = fr.defers[:len(fr.defers)-1]
		func() {
			defer func() {
				if r := recover(); r != nil {
					gp, ok := r.(goPanic)
					if !ok {
						panic(r)
					}
					fr.panicking = true
					fr.panicVal = gp
				}
			}()
			in.Call(fr, d.fn, d.args)
		}()
	}
}

type cont int

const (
	kNext cont = iota
	kReturn
	kJump
)

func (in *Interp) deref(p Val) *Val {
	pp, ok := p.(*Val)
	if !ok {
		panic(fmt.Sprintf("deref of %T", p))
	}
	if pp == nil {
		panic(in.runtimePanic("invalid memory address or nil pointer dereference"))
	}
	return pp
}

func (in *Interp) exec(fr *frame, ci *cinstr) cont {
	instr := ci.ins
	switch ins := instr.(type) {
	case *ssa.DebugRef:
	case *ssa.UnOp:
		fr.locals[ci.dst] = in.unop(fr, ins, fr.op(ci, 0))
	case *ssa.BinOp:
		fr.locals[ci.dst] = in.binop(ins.Op, ins.X.Type(), fr.op(ci, 0), fr.op(ci, 1))
	case *ssa.Call:
		fn, args := in.prepareCall(fr, &ins.Call, ci)
		fr.locals[ci.dst] = in.Call(fr, fn, args)
	case *ssa.ChangeInterface:
		fr.locals[ci.dst] = fr.op(ci, 0)
	case *ssa.ChangeType:
		fr.locals[ci.dst] = fr.op(ci, 0)
	case *ssa.Convert:
		fr.locals[ci.dst] = in.conv(ins.Type(), ins.X.Type(), fr.op(ci, 0))
	case *ssa.SliceToArrayPointer:
		panic(in.unsupported("SliceToArrayPointer"))
	case *ssa.MakeInterface:
		fr.locals[ci.dst] = Iface{t: ins.X.Type(), v: fr.op(ci, 0)}
	case *ssa.Extract:
		fr.locals[ci.dst] = fr.op(ci, 0).(Tuple)[ins.Index]
	case *ssa.Slice:
		fr.locals[ci.dst] = in.slice(fr.op(ci, 0), fr, ci)
	case *ssa.Return:
		switch len(ins.Results) {
		case 0:
		case 1:
			fr.result = fr.op(ci, 0)
		default:
			res := make(Tuple, len(ins.Results))
			for i := range ins.Results {
				res[i] = fr.op(ci, i)
			}
			fr.result = res
		}
		return kReturn
	case *ssa.RunDefers:
		in.runDefers(fr)
		if fr.panicking {
			panic(fr.panicVal)
		}
	case *ssa.Panic:
		panic(goPanic{fr.op(ci, 0)})
	case *ssa.Send, *ssa.Go, *ssa.Select, *ssa.MakeChan:
		panic(in.unsupported(fmt.Sprintf("%T", instr)))
	case *ssa.Store:
		p := fr.op(ci, 0)
		if sp, ok := p.(SymElemPtr); ok {
			in.symStore(sp, fr.op(ci, 1))
			break
		}
		storeInto(in.deref(p), fr.op(ci, 1))
	case *ssa.If:
		c := fr.op(ci, 0).(*Term)
		succ := 1
		if in.Decide(c) {
			succ = 0
		}
		fr.prev, fr.block = fr.block, fr.block.Succs[succ]
		return kJump
	case *ssa.Jump:
		fr.prev, fr.block = fr.block, fr.block.Succs[0]
		return kJump
	case *ssa.Defer:
		fn, args := in.prepareCall(fr, &ins.Call, ci)
		fr.defers = append(fr.defers, deferred{fn, args})
	case *ssa.Alloc:
		p := new(Val)
		*p = in.zero(ins.Type().(*types.Pointer).Elem())
		fr.locals[ci.dst] = p
	case *ssa.MakeSlice:
		n := in.concInt(fr.op(ci, 0))
		c := in.concInt(fr.op(ci, 1))
		if n < 0 || c < n || c > 1<<24 {
			panic(in.runtimePanic("makeslice: len out of range"))
		}
		a := make([]Val, n, c)
		if n > 0 {
			z := in.zero(ins.Type().Underlying().(*types.Slice).Elem())
			for i := range a {
				a[i] = copyVal(z)
			}
		}
		fr.locals[ci.dst] = Slice{a}
	case *ssa.MakeMap:
		fr.locals[ci.dst] = newMap()
	case *ssa.Range:
		fr.locals[ci.dst] = in.rangeIter(fr.op(ci, 0))
	case *ssa.Next:
		fr.locals[ci.dst] = in.next(fr.op(ci, 0), ins)
	case *ssa.FieldAddr:
		p := in.deref(fr.op(ci, 0))
		s, ok := (*p).(Struct)
		if !ok {
			panic(fmt.Sprintf("FieldAddr on %T in %s", *p, fr.fn))
		}
		fr.locals[ci.dst] = &s[ins.Field]
	case *ssa.Field:
		fr.locals[ci.dst] = copyVal(fr.op(ci, 0).(Struct)[ins.Field])
	case *ssa.IndexAddr:
		fr.locals[ci.dst] = in.indexAddr(fr.op(ci, 0), in.widenIdx(fr.op(ci, 1), ins.Index.Type()))
	case *ssa.Index:
		fr.locals[ci.dst] = in.index(fr.op(ci, 0), in.widenIdx(fr.op(ci, 1), ins.Index.Type()))
	case *ssa.Lookup:
		fr.locals[ci.dst] = in.lookup(ins, fr.op(ci, 0), fr.op(ci, 1))
	case *ssa.MapUpdate:
		m := fr.op(ci, 0).(*Map)
		if m == nil {
			panic(goPanic{RuntimePanic{"assignment to entry in nil map"}})
		}
		in.mapSet(m, fr.op(ci, 1), copyVal(fr.op(ci, 2)))
	case *ssa.TypeAssert:
		fr.locals[ci.dst] = in.typeAssert(ins, fr.op(ci, 0))
	case *ssa.MakeClosure:
		var env []Val
		for i := range ins.Bindings {
			env = append(env, fr.op(ci, i+1))
		}
		fr.locals[ci.dst] = &Closure{ins.Fn.(*ssa.Function), env}
	case *ssa.Phi:
		for i, pred := range ins.Block().Preds {
			if fr.prev == pred {
				fr.locals[ci.dst] = fr.op(ci, i)
				break
			}
		}
	default:
		panic(in.unsupported(fmt.Sprintf("instruction %T", instr)))
	}
	return kNext
}

func (in *Interp) prepareCall(fr *frame, call *ssa.CallCommon, ci *cinstr) (Val, []Val) {
	v := fr.op(ci, 0)
	var args []Val
	var fn Val
	if call.Method == nil {
		fn = v
		args = make([]Val, 0, len(call.Args))
	} else {
		recv := v.(Iface)
		if rp, ok := recv.v.(RuntimePanic); ok && call.Method.Name() == "Error" {
			return &NativeFunc{name: "runtime.Error.Error", fn: func(in *Interp, a []Val) Val { return ConcStr("runtime error: " + rp.msg) }}, nil
		}
		if recv.t == nil && in.initMode {
			sig := call.Signature()
			return &NativeFunc{name: "init-lenient", fn: func(in *Interp, a []Val) Val { return in.zeroResult(sig) }}, nil
		}
		if recv.t == nil {
			panic(in.runtimePanic("invalid memory address or nil pointer dereference (method call on nil interface)"))
		}
		if rt, ok := recv.v.(RType); ok {
			name := call.Method.Name()
			fn = &NativeFunc{name: "reflect.Type." + name, fn: func(in *Interp, a []Val) Val { return in.rtypeMethod(rt, name, a) }}
			args = make([]Val, 0, len(call.Args))
		} else {
			m := in.prog.LookupMethod(recv.t, call.Method.Pkg(), call.Method.Name())
			if m == nil {
				panic(fmt.Sprintf("method %s not found on %s", call.Method.Name(), recv.t))
			}
			fn = m
			args = make([]Val, 0, len(call.Args)+1)
			args = append(args, recv.v)
		}
	}
	for i := range call.Args {
		args = append(args, copyVal(fr.op(ci, i+1)))
	}
	return fn, args
}

// invokeMethod calls method name on the interface value recv.
func (in *Interp) invokeMethod(fr *frame, recv Iface, name string, args []Val) Val {
	if recv.t == nil {
		panic(in.runtimePanic("nil interface method call"))
	}
	if rp, ok := recv.v.(RuntimePanic); ok {
		// the value of a recovered run-time panic (a runtime.Error)
		if name == "Error" {
			return ConcStr("runtime error: " + rp.msg)
		}
		panic(in.unsupported("method " + name + " on a recovered run-time error"))
	}
	ms := in.prog.MethodSets.MethodSet(recv.t)
	for i := 0; i < ms.Len(); i++ {
		sel := ms.At(i)
		if sel.Obj().Name() == name {
			m := in.prog.MethodValue(sel)
			return in.callFunction(fr, m, append([]Val{recv.v}, args...), nil)
		}
	}
	panic(fmt.Sprintf("invokeMethod: no method %s on %s", name, recv.t))
}

func (in *Interp) hasMethod(t types.Type, name string) bool {
	if t == nil {
		return false
	}
	ms := in.prog.MethodSets.MethodSet(t)
	for i := 0; i < ms.Len(); i++ {
		if ms.At(i).Obj().Name() == name {
			return true
		}
	}
	return false
}

func (in *Interp) implements(t types.Type, it types.Type) bool {
	key := [2]types.Type{t, it}
	if b, ok := in.implCache[key]; ok {
		return b
	}
	b := types.Implements(t, it.Underlying().(*types.Interface))
	in.implCache[key] = b
	return b
}

func (in *Interp) typeAssert(ins *ssa.TypeAssert, x Val) Val {
	itf := x.(Iface)
	var ok bool
	var v Val
	if _, isIface := ins.AssertedType.Underlying().(*types.Interface); isIface {
		if itf.t != nil && in.implements(itf.t, ins.AssertedType) {
			ok = true
			v = itf
		} else {
			v = Iface{}
		}
	} else {
		if itf.t != nil && types.Identical(itf.t, ins.AssertedType) {
			ok = true
			v = copyVal(itf.v)
		} else {
			v = in.zero(ins.AssertedType)
		}
	}
	if ins.CommaOk {
		return Tuple{v, in.tt.Bool(ok)}
	}
	if !ok {
		ts := "nil"
		if itf.t != nil {
			ts = itf.t.String()
		}
		panic(in.runtimePanic(fmt.Sprintf("interface conversion: interface is %s, not %s", ts, ins.AssertedType)))
	}
	return v
}

// concInt returns the concrete value of an integer Val, concretising through
// the solver if necessary.
func (in *Interp) concInt(v Val) int {
	t := v.(*Term)
	if t.IsConst() {
		return int(t.S())
	}
	return int(sext64(in.Concretize(t), t.w))
}

func (in *Interp) dumpStack(fr *frame) string {
	var sb strings.Builder
	for f := fr; f != nil; f = f.caller {
		sb.WriteString(f.fn.String())
		sb.WriteString(" <- ")
	}
	return sb.String()
}

var traceCalls = os.Getenv("GOSYMX_TRACE") != ""
var _ = os.Stderr
var _ = token.ADD
