package sx

// ops.go: operators, conversions, slices, maps, iteration, builtins.

import (
	"fmt"
	"go/token"
	"go/types"
	"math"
	"unicode/utf8"

	"golang.org/x/tools/go/ssa"
)

// SymElemPtr is the address of cells[idx] for a symbolic idx (already known
// to be in range).
type SymElemPtr struct {
	cells []Val
	idx   *Term
}

func (in *Interp) unop(fr *frame, ins *ssa.UnOp, x Val) Val {
	switch ins.Op {
	case token.MUL: // load
		if sp, ok := x.(SymElemPtr); ok {
			return in.symLoad(sp)
		}
		return copyVal(*in.deref(x))
	case token.NOT:
		return in.tt.Not(x.(*Term))
	case token.SUB:
		switch v := x.(type) {
		case *Term:
			return in.tt.Neg(v)
		case FloatV:
			return FloatV{f: -v.f, bits: v.bits}
		}
	case token.XOR:
		return in.tt.BNot(x.(*Term))
	case token.ARROW:
		panic(in.unsupported("channel receive"))
	}
	panic(fmt.Sprintf("unop %s on %T", ins.Op, x))
}

func (in *Interp) symLoad(sp SymElemPtr) Val {
	// group cells by constant value
	type cls struct {
		v    *Term
		idxs []int
	}
	var classes []*cls
	byVal := map[*Term]*cls{}
	allConst := true
	for i, c := range sp.cells {
		t, ok := c.(*Term)
		if !ok || !t.IsConst() {
			allConst = false
			break
		}
		cl := byVal[t]
		if cl == nil {
			cl = &cls{v: t}
			byVal[t] = cl
			classes = append(classes, cl)
		}
		cl.idxs = append(cl.idxs, i)
	}
	if !allConst {
		// symbolic contents
		allTerms := true
		for _, c := range sp.cells {
			if _, ok := c.(*Term); !ok {
				allTerms = false
				break
			}
		}
		if allTerms && len(sp.cells) <= 64 {
			r := sp.cells[len(sp.cells)-1].(*Term)
			for i := len(sp.cells) - 2; i >= 0; i-- {
				r = in.tt.Ite(in.tt.Eq(sp.idx, in.tt.BV(int(sp.idx.w), uint64(i))), sp.cells[i].(*Term), r)
			}
			return r
		}
		i := in.Concretize(sp.idx)
		return copyVal(sp.cells[i])
	}
	if len(classes) <= 40 {
		// build an ite term instead of forking
		var r *Term
		for ci := len(classes) - 1; ci >= 0; ci-- {
			cl := classes[ci]
			if r == nil {
				r = cl.v
				continue
			}
			r = in.tt.Ite(in.idxIn(sp.idx, cl.idxs), cl.v, r)
		}
		return r
	}
	for ci, cl := range classes {
		if ci == len(classes)-1 {
			return cl.v
		}
		if in.Decide(in.idxIn(sp.idx, cl.idxs)) {
			return cl.v
		}
	}
	panic("unreachable")
}

// idxIn builds idx ∈ set as a disjunction of ranges.
func (in *Interp) idxIn(idx *Term, set []int) *Term {
	r := in.tt.False
	w := int(idx.w)
	for i := 0; i < len(set); {
		j := i
		for j+1 < len(set) && set[j+1] == set[j]+1 {
			j++
		}
		var c *Term
		if i == j {
			c = in.tt.Eq(idx, in.tt.BV(w, uint64(set[i])))
		} else {
			c = in.tt.And(in.tt.Ule(in.tt.BV(w, uint64(set[i])), idx), in.tt.Ule(idx, in.tt.BV(w, uint64(set[j]))))
		}
		r = in.tt.Or(r, c)
		i = j + 1
	}
	return r
}

func (in *Interp) symStore(sp SymElemPtr, v Val) {
	i := in.Concretize(sp.idx)
	storeInto(&sp.cells[i], v)
}

func (in *Interp) binop(op token.Token, xt types.Type, x, y Val) Val {
	tt := in.tt
	switch a := x.(type) {
	case *Term:
		b, ok := y.(*Term)
		if !ok {
			panic(fmt.Sprintf("binop %s: %T vs %T", op, x, y))
		}
		if a.w == 0 {
			switch op {
			case token.EQL:
				return tt.Eq(a, b)
			case token.NEQ:
				return tt.Not(tt.Eq(a, b))
			case token.LAND, token.AND:
				return tt.And(a, b)
			case token.LOR, token.OR:
				return tt.Or(a, b)
			}
			panic("bool binop " + op.String())
		}
		signed := isSigned(xt)
		switch op {
		case token.ADD:
			return tt.Add(a, b)
		case token.SUB:
			return tt.Sub(a, b)
		case token.MUL:
			return tt.Mul(a, b)
		case token.QUO, token.REM:
			if !in.Decide(tt.Not(tt.Eq(b, tt.BV(int(b.w), 0)))) {
				panic(in.runtimePanic("integer divide by zero"))
			}
			switch {
			case op == token.QUO && signed:
				return tt.SDiv(a, b)
			case op == token.QUO:
				return tt.UDiv(a, b)
			case signed:
				return tt.SRem(a, b)
			}
			return tt.URem(a, b)
		case token.AND:
			return tt.BAnd(a, b)
		case token.OR:
			return tt.BOr(a, b)
		case token.XOR:
			return tt.BXor(a, b)
		case token.AND_NOT:
			return tt.BAnd(a, tt.BNot(b))
		case token.SHL, token.SHR:
			return in.shift(op, signed, a, b)
		case token.EQL:
			return tt.Eq(a, b)
		case token.NEQ:
			return tt.Not(tt.Eq(a, b))
		case token.LSS:
			if signed {
				return tt.Slt(a, b)
			}
			return tt.Ult(a, b)
		case token.LEQ:
			if signed {
				return tt.Sle(a, b)
			}
			return tt.Ule(a, b)
		case token.GTR:
			if signed {
				return tt.Slt(b, a)
			}
			return tt.Ult(b, a)
		case token.GEQ:
			if signed {
				return tt.Sle(b, a)
			}
			return tt.Ule(b, a)
		}
	case FloatV:
		b := y.(FloatV)
		if a.unk || b.unk {
			panic(in.unsupported("arithmetic on an untracked float value"))
		}
		switch op {
		case token.ADD:
			return in.mkFloat(a.f+b.f, a.bits)
		case token.SUB:
			return in.mkFloat(a.f-b.f, a.bits)
		case token.MUL:
			return in.mkFloat(a.f*b.f, a.bits)
		case token.QUO:
			return in.mkFloat(a.f/b.f, a.bits)
		case token.EQL:
			return tt.Bool(a.f == b.f)
		case token.NEQ:
			return tt.Bool(a.f != b.f)
		case token.LSS:
			return tt.Bool(a.f < b.f)
		case token.LEQ:
			return tt.Bool(a.f <= b.f)
		case token.GTR:
			return tt.Bool(a.f > b.f)
		case token.GEQ:
			return tt.Bool(a.f >= b.f)
		}
	case Str:
		b := y.(Str)
		switch op {
		case token.ADD:
			return strConcat(a, b)
		case token.EQL:
			return in.strEq(a, b)
		case token.NEQ:
			return tt.Not(in.strEq(a, b))
		case token.LSS:
			return in.strLess(a, b)
		case token.GTR:
			return in.strLess(b, a)
		case token.LEQ:
			return tt.Not(in.strLess(b, a))
		case token.GEQ:
			return tt.Not(in.strLess(a, b))
		}
	}
	switch op {
	case token.EQL:
		return in.equal(x, y)
	case token.NEQ:
		return tt.Not(in.equal(x, y))
	}
	panic(fmt.Sprintf("binop %s on %T, %T", op, x, y))
}

func (in *Interp) mkFloat(f float64, bits int) FloatV {
	if bits == 32 {
		return FloatV{f: float64(float32(f)), bits: 32}
	}
	return FloatV{f: f, bits: 64}
}

func (in *Interp) shift(op token.Token, signed bool, a, b *Term) *Term {
	tt := in.tt
	w := int(a.w)
	if b.IsConst() {
		n := b.k
		if n >= uint64(w) {
			if op == token.SHR && signed {
				return tt.AShr(a, tt.BV(w, uint64(w-1)))
			}
			return tt.BV(w, 0)
		}
		c := tt.BV(w, n)
		switch {
		case op == token.SHL:
			return tt.Shl(a, c)
		case signed:
			return tt.AShr(a, c)
		}
		return tt.LShr(a, c)
	}
	// symbolic shift count: SMT semantics already saturate when the count is
	// compared at the operand's width; widen/narrow the count with saturation.
	var cnt *Term
	if int(b.w) <= w {
		cnt = tt.ZExt(b, w)
	} else {
		big := tt.Ule(tt.BV(int(b.w), uint64(w)), b)
		cnt = tt.Ite(big, tt.BV(w, uint64(w)), tt.Extract(b, w-1, 0))
	}
	switch {
	case op == token.SHL:
		return tt.Shl(a, cnt)
	case signed:
		return tt.AShr(a, cnt)
	}
	return tt.LShr(a, cnt)
}

// equal builds the Bool term x == y for comparable values.
func (in *Interp) equal(x, y Val) *Term {
	tt := in.tt
	switch a := x.(type) {
	case *Term:
		return tt.Eq(a, y.(*Term))
	case Str:
		return in.strEq(a, y.(Str))
	case FloatV:
		return tt.Bool(a.f == y.(FloatV).f)
	case *Val:
		b, ok := y.(*Val)
		return tt.Bool(ok && a == b)
	case *Map:
		b, _ := y.(*Map)
		return tt.Bool(a == b)
	case Slice:
		b := y.(Slice)
		if a.a == nil || b.a == nil {
			return tt.Bool(a.a == nil && b.a == nil)
		}
		panic("slice comparison")
	case FuncNil:
		_, ok := y.(FuncNil)
		return tt.Bool(ok)
	case *ssa.Function, *Closure, *NativeFunc, *ssa.Builtin:
		_, ok := y.(FuncNil)
		if ok {
			return tt.False
		}
		panic("func comparison")
	case Iface:
		b, ok := y.(Iface)
		if !ok {
			panic(fmt.Sprintf("iface compared with %T", y))
		}
		if a.t == nil || b.t == nil {
			return tt.Bool(a.t == nil && b.t == nil)
		}
		if !types.Identical(a.t, b.t) {
			return tt.False
		}
		return in.equal(a.v, b.v)
	case Struct:
		b := y.(Struct)
		r := tt.True
		for i := range a {
			r = tt.And(r, in.equal(a[i], b[i]))
		}
		return r
	case Array:
		b := y.(Array)
		r := tt.True
		for i := range a {
			r = tt.And(r, in.equal(a[i], b[i]))
		}
		return r
	case RType:
		b, ok := y.(RType)
		return tt.Bool(ok && types.Identical(a.t, b.t))
	case nil:
		return tt.Bool(y == nil)
	}
	panic(fmt.Sprintf("equal on %T, %T", x, y))
}

// ---- conversions ----

func (in *Interp) conv(dst, src types.Type, x Val) Val {
	tt := in.tt
	ud, us := dst.Underlying(), src.Underlying()
	switch d := ud.(type) {
	case *types.Basic:
		switch {
		case d.Info()&types.IsInteger != 0:
			w := in.intWidth(d)
			switch v := x.(type) {
			case *Term:
				if isSigned(src) {
					return tt.SExt(v, w)
				}
				return tt.ZExt(v, w)
			case FloatV:
				if v.unk {
					panic(in.unsupported("conversion of an untracked float value"))
				}
				if d.Info()&types.IsUnsigned != 0 {
					return tt.BV(w, uint64(v.f))
				}
				return tt.BV(w, uint64(int64(v.f)))
			}
		case d.Info()&types.IsFloat != 0:
			bits := 64
			if d.Kind() == types.Float32 {
				bits = 32
			}
			switch v := x.(type) {
			case FloatV:
				if v.unk {
					return FloatV{0, bits, true}
				}
				return in.mkFloat(v.f, bits)
			case *Term:
				if !v.IsConst() {
					v = tt.BV(int(v.w), in.Concretize(v))
				}
				if isSigned(src) {
					return in.mkFloat(float64(v.S()), bits)
				}
				return in.mkFloat(float64(v.U()), bits)
			}
		case d.Info()&types.IsString != 0:
			switch v := x.(type) {
			case Str:
				return v
			case *Term: // string(rune)
				r := v
				if isSigned(src) {
					r = tt.SExt(v, 64)
				} else {
					r = tt.ZExt(v, 64)
				}
				return in.strFromBytes(in.encodeRune(r))
			case Slice:
				if sl, ok := us.(*types.Slice); ok {
					eb := sl.Elem().Underlying().(*types.Basic)
					if eb.Kind() == types.Uint8 {
						bs := make([]*Term, len(v.a))
						for i, c := range v.a {
							bs[i] = c.(*Term)
						}
						return in.strFromBytes(bs)
					}
					// []rune
					var bs []*Term
					for _, c := range v.a {
						bs = append(bs, in.encodeRune(tt.SExt(c.(*Term), 64))...)
					}
					return in.strFromBytes(bs)
				}
			}
		case d.Kind() == types.UnsafePointer:
			panic(in.unsupported("conversion to unsafe.Pointer"))
		}
	case *types.Slice:
		if s, ok := x.(Str); ok {
			eb := d.Elem().Underlying().(*types.Basic)
			if eb.Kind() == types.Uint8 {
				a := make([]Val, len(s.s))
				for i := range a {
					a[i] = in.strByte(s, i)
				}
				return Slice{a}
			}
			// []rune(s)
			a := []Val{}
			for pos := 0; pos < len(s.s); {
				r, n := in.decodeRune(s, pos)
				a = append(a, tt.Extract(r, 31, 0))
				pos += n
			}
			return Slice{a}
		}
		return x
	case *types.Pointer:
		if _, ok := x.(*Val); ok {
			return x
		}
		panic(in.unsupported("pointer conversion from " + src.String()))
	}
	// identical underlying types (named <-> unnamed)
	if types.Identical(ud, us) {
		return x
	}
	panic(in.unsupported(fmt.Sprintf("conversion %s -> %s (%T)", src, dst, x)))
}

// encodeRune encodes a 64-bit rune term as UTF-8, forking on its class.
func (in *Interp) encodeRune(r *Term) []*Term {
	tt := in.tt
	if r.IsConst() {
		v := r.S()
		var rr rune
		if v < 0 || v > utf8.MaxRune {
			rr = utf8.RuneError
		} else {
			rr = rune(v)
		}
		var buf [4]byte
		n := utf8.EncodeRune(buf[:], rr)
		out := make([]*Term, n)
		for i := 0; i < n; i++ {
			out[i] = tt.BV(8, uint64(buf[i]))
		}
		return out
	}
	c := func(k uint64) *Term { return tt.BV(64, k) }
	b8 := func(t *Term) *Term { return tt.Extract(t, 7, 0) }
	bad := []*Term{tt.BV(8, 0xEF), tt.BV(8, 0xBF), tt.BV(8, 0xBD)}
	if in.Decide(tt.Ult(r, c(0x80))) {
		return []*Term{b8(r)}
	}
	if in.Decide(tt.Ult(r, c(0x800))) {
		return []*Term{
			b8(tt.BOr(c(0xC0), tt.LShr(r, c(6)))),
			b8(tt.BOr(c(0x80), tt.BAnd(r, c(0x3F)))),
		}
	}
	if in.Decide(tt.Ult(c(0x10FFFF), r)) {
		return bad
	}
	if in.Decide(tt.And(tt.Ule(c(0xD800), r), tt.Ule(r, c(0xDFFF)))) {
		return bad
	}
	if in.Decide(tt.Ult(r, c(0x10000))) {
		return []*Term{
			b8(tt.BOr(c(0xE0), tt.LShr(r, c(12)))),
			b8(tt.BOr(c(0x80), tt.BAnd(tt.LShr(r, c(6)), c(0x3F)))),
			b8(tt.BOr(c(0x80), tt.BAnd(r, c(0x3F)))),
		}
	}
	return []*Term{
		b8(tt.BOr(c(0xF0), tt.LShr(r, c(18)))),
		b8(tt.BOr(c(0x80), tt.BAnd(tt.LShr(r, c(12)), c(0x3F)))),
		b8(tt.BOr(c(0x80), tt.BAnd(tt.LShr(r, c(6)), c(0x3F)))),
		b8(tt.BOr(c(0x80), tt.BAnd(r, c(0x3F)))),
	}
}

// decodeRune decodes the rune starting at s[pos] (Go range-loop semantics),
// forking on the byte classes. The rune is a 64-bit term.
func (in *Interp) decodeRune(s Str, pos int) (*Term, int) {
	tt := in.tt
	n := len(s.s) - pos
	// concrete fast path
	conc := true
	lim := pos + 4
	if lim > len(s.s) {
		lim = len(s.s)
	}
	if s.sym != nil {
		for i := pos; i < lim; i++ {
			if s.sym[i] != nil && !s.sym[i].IsConst() {
				conc = false
			}
		}
	}
	if conc {
		var buf [4]byte
		for i := pos; i < lim; i++ {
			buf[i-pos] = byte(in.strByte(s, i).k)
		}
		r, sz := utf8.DecodeRune(buf[:lim-pos])
		return tt.BV(64, uint64(r)), sz
	}
	b8 := func(k uint64) *Term { return tt.BV(8, k) }
	inr := func(b *Term, lo, hi uint64) *Term { return tt.And(tt.Ule(b8(lo), b), tt.Ule(b, b8(hi))) }
	z := func(b *Term) *Term { return tt.ZExt(b, 64) }
	c := func(k uint64) *Term { return tt.BV(64, k) }
	bad := c(0xFFFD)
	b0 := in.strByte(s, pos)
	if in.Decide(tt.Ult(b0, b8(0x80))) {
		return z(b0), 1
	}
	if in.Decide(inr(b0, 0xC2, 0xDF)) {
		if n < 2 {
			return bad, 1
		}
		b1 := in.strByte(s, pos+1)
		if !in.Decide(inr(b1, 0x80, 0xBF)) {
			return bad, 1
		}
		return tt.BOr(tt.Shl(tt.BAnd(z(b0), c(0x1F)), c(6)), tt.BAnd(z(b1), c(0x3F))), 2
	}
	if in.Decide(inr(b0, 0xE0, 0xEF)) {
		if n < 2 {
			return bad, 1
		}
		b1 := in.strByte(s, pos+1)
		// accept ranges for second byte
		lo := tt.Ite(tt.Eq(b0, b8(0xE0)), b8(0xA0), b8(0x80))
		hi := tt.Ite(tt.Eq(b0, b8(0xED)), b8(0x9F), b8(0xBF))
		if !in.Decide(tt.And(tt.Ule(lo, b1), tt.Ule(b1, hi))) {
			return bad, 1
		}
		if n < 3 {
			return bad, 1
		}
		b2 := in.strByte(s, pos+2)
		if !in.Decide(inr(b2, 0x80, 0xBF)) {
			return bad, 1
		}
		r := tt.BOr(tt.BOr(tt.Shl(tt.BAnd(z(b0), c(0x0F)), c(12)), tt.Shl(tt.BAnd(z(b1), c(0x3F)), c(6))), tt.BAnd(z(b2), c(0x3F)))
		return r, 3
	}
	if in.Decide(inr(b0, 0xF0, 0xF4)) {
		if n < 2 {
			return bad, 1
		}
		b1 := in.strByte(s, pos+1)
		lo := tt.Ite(tt.Eq(b0, b8(0xF0)), b8(0x90), b8(0x80))
		hi := tt.Ite(tt.Eq(b0, b8(0xF4)), b8(0x8F), b8(0xBF))
		if !in.Decide(tt.And(tt.Ule(lo, b1), tt.Ule(b1, hi))) {
			return bad, 1
		}
		if n < 3 {
			return bad, 1
		}
		b2 := in.strByte(s, pos+2)
		if !in.Decide(inr(b2, 0x80, 0xBF)) {
			return bad, 1
		}
		if n < 4 {
			return bad, 1
		}
		b3 := in.strByte(s, pos+3)
		if !in.Decide(inr(b3, 0x80, 0xBF)) {
			return bad, 1
		}
		r := tt.BOr(tt.BOr(tt.BOr(tt.Shl(tt.BAnd(z(b0), c(0x07)), c(18)), tt.Shl(tt.BAnd(z(b1), c(0x3F)), c(12))), tt.Shl(tt.BAnd(z(b2), c(0x3F)), c(6))), tt.BAnd(z(b3), c(0x3F)))
		return r, 4
	}
	return bad, 1
}

// ---- slicing / indexing ----

func (in *Interp) optInt(fr *frame, ci *cinstr, i int, def int) int {
	if !fr.has(ci, i) {
		return def
	}
	return in.concInt(fr.op(ci, i))
}

func (in *Interp) slice(x Val, fr *frame, ci *cinstr) Val {
	switch v := x.(type) {
	case Str:
		l := in.optInt(fr, ci, 1, 0)
		h := in.optInt(fr, ci, 2, len(v.s))
		if l < 0 || h < l || h > len(v.s) {
			panic(in.runtimePanic(fmt.Sprintf("slice bounds out of range [%d:%d] with length %d", l, h, len(v.s))))
		}
		return strSlice(v, l, h)
	case Slice:
		l := in.optInt(fr, ci, 1, 0)
		h := in.optInt(fr, ci, 2, len(v.a))
		m := in.optInt(fr, ci, 3, cap(v.a))
		if l < 0 || h < l || m < h || m > cap(v.a) {
			panic(in.runtimePanic(fmt.Sprintf("slice bounds out of range [%d:%d:%d] with capacity %d", l, h, m, cap(v.a))))
		}
		if v.a == nil {
			return Slice{}
		}
		return Slice{v.a[l:h:m]}
	case *Val:
		arr := (*in.deref(v)).(Array)
		l := in.optInt(fr, ci, 1, 0)
		h := in.optInt(fr, ci, 2, len(arr))
		m := in.optInt(fr, ci, 3, len(arr))
		if l < 0 || h < l || m < h || m > len(arr) {
			panic(in.runtimePanic("slice bounds out of range"))
		}
		return Slice{[]Val(arr)[l:h:m]}
	}
	panic(fmt.Sprintf("slice of %T", x))
}

func (in *Interp) widenIdx(idx Val, t types.Type) *Term {
	it := idx.(*Term)
	if isSigned(t) {
		return in.tt.SExt(it, 64)
	}
	return in.tt.ZExt(it, 64)
}

func (in *Interp) checkIndex(idx *Term, n int) (int, bool) {
	if idx.IsConst() {
		i := idx.S()
		if i < 0 || i >= int64(n) {
			panic(in.runtimePanic(fmt.Sprintf("index out of range [%d] with length %d", i, n)))
		}
		return int(i), true
	}
	// symbolic: obligation that it is in range (unsigned compare handles <0)
	if !in.Decide(in.tt.Ult(idx, in.tt.BV(int(idx.w), uint64(n)))) {
		panic(in.runtimePanic(fmt.Sprintf("index out of range [symbolic] with length %d", n)))
	}
	return 0, false
}

func (in *Interp) indexAddr(x Val, it *Term) Val {
	var cells []Val
	switch v := x.(type) {
	case Slice:
		cells = v.a
	case *Val:
		cells = (*in.deref(v)).(Array)
	default:
		panic(fmt.Sprintf("indexAddr of %T", x))
	}
	i, conc := in.checkIndex(it, len(cells))
	if conc {
		return &cells[i]
	}
	return SymElemPtr{cells, it}
}

func (in *Interp) index(x Val, it *Term) Val {
	switch v := x.(type) {
	case Array:
		i, conc := in.checkIndex(it, len(v))
		if conc {
			return copyVal(v[i])
		}
		return in.symLoad(SymElemPtr{v, it})
	case Str:
		i, conc := in.checkIndex(it, len(v.s))
		if conc {
			return in.strByte(v, i)
		}
		cells := make([]Val, len(v.s))
		for j := range cells {
			cells[j] = in.strByte(v, j)
		}
		return in.symLoad(SymElemPtr{cells, it})
	}
	panic(fmt.Sprintf("index of %T", x))
}

// ---- maps ----

func (in *Interp) hashKey(k Val) (interface{}, bool) {
	switch v := k.(type) {
	case Str:
		if v.sym == nil {
			return v.s, true
		}
		n := v.norm()
		if n.sym == nil {
			return n.s, true
		}
		return nil, false
	case *Term:
		if v.IsConst() {
			return [2]uint64{uint64(v.w), v.k}, true
		}
		return nil, false
	case *Val:
		return v, true
	case Iface:
		if v.t == nil {
			return "nil-iface", true
		}
		h, ok := in.hashKey(v.v)
		if !ok {
			return nil, false
		}
		return [2]interface{}{v.t.String(), h}, true
	case RType:
		return "rtype:" + v.t.String(), true
	}
	return nil, false
}

// mapFind returns the entry index for key k (forking on symbolic equality) or -1.
func (in *Interp) mapFind(m *Map, k Val) int {
	if m == nil {
		return -1
	}
	h, conc := in.hashKey(k)
	if conc && m.allConc {
		if i, ok := m.idx[h]; ok {
			return i
		}
		return -1
	}
	for i, e := range m.entries {
		if e.deleted {
			continue
		}
		if in.Decide(in.equal(e.k, k)) {
			return i
		}
	}
	return -1
}

func (in *Interp) mapSet(m *Map, k, v Val) {
	i := in.mapFind(m, k)
	if i >= 0 {
		m.entries[i].v = v
		return
	}
	m.entries = append(m.entries, &mapEntry{k: k, v: v})
	m.n++
	if h, ok := in.hashKey(k); ok {
		m.idx[h] = len(m.entries) - 1
	} else {
		m.allConc = false
	}
}

func (in *Interp) mapDelete(m *Map, k Val) {
	i := in.mapFind(m, k)
	if i < 0 {
		return
	}
	m.entries[i].deleted = true
	m.n--
	if h, ok := in.hashKey(m.entries[i].k); ok {
		delete(m.idx, h)
	}
}

func (in *Interp) lookup(ins *ssa.Lookup, x, k Val) Val {
	if s, ok := x.(Str); ok {
		return in.index(s, in.widenIdx(k, ins.Index.Type()))
	}
	m := x.(*Map)
	i := in.mapFind(m, k)
	var v Val
	if i >= 0 {
		v = copyVal(m.entries[i].v)
	} else {
		v = in.zero(ins.X.Type().Underlying().(*types.Map).Elem())
	}
	if ins.CommaOk {
		return Tuple{v, in.tt.Bool(i >= 0)}
	}
	return v
}

// ---- iteration ----

func (in *Interp) rangeIter(x Val) Val {
	switch v := x.(type) {
	case Str:
		return &StrIter{s: v}
	case *Map:
		it := &MapIter{m: v}
		if v != nil {
			for i, e := range v.entries {
				if !e.deleted {
					it.order = append(it.order, i)
				}
			}
		}
		return it
	}
	panic(fmt.Sprintf("range over %T", x))
}

func (in *Interp) next(iter Val, ins *ssa.Next) Val {
	switch it := iter.(type) {
	case *StrIter:
		if it.pos >= len(it.s.s) {
			return Tuple{in.tt.False, in.tt.BV(64, 0), in.tt.BV(32, 0)}
		}
		r, n := in.decodeRune(it.s, it.pos)
		k := in.tt.BV(64, uint64(it.pos))
		it.pos += n
		return Tuple{in.tt.True, k, in.tt.Extract(r, 31, 0)}
	case *MapIter:
		mt := ins.Iter.(*ssa.Range).X.Type().Underlying().(*types.Map)
		for {
			if len(it.order) == 0 {
				return Tuple{in.tt.False, in.zero(mt.Key()), in.zero(mt.Elem())}
			}
			pick := 0
			if in.mapNondet && len(it.order) > 1 {
				pick = in.Choose(len(it.order))
			}
			ei := it.order[pick]
			it.order = append(it.order[:pick:pick], it.order[pick+1:]...)
			e := it.m.entries[ei]
			if e.deleted {
				continue
			}
			return Tuple{in.tt.True, e.k, copyVal(e.v)}
		}
	}
	panic(fmt.Sprintf("next on %T", iter))
}

// ---- builtins ----

func (in *Interp) callBuiltin(caller *frame, b *ssa.Builtin, args []Val) Val {
	tt := in.tt
	switch b.Name() {
	case "append":
		s := args[0].(Slice)
		var add []Val
		switch y := args[1].(type) {
		case Slice:
			add = y.a
		case Str:
			for i := 0; i < len(y.s); i++ {
				add = append(add, in.strByte(y, i))
			}
		}
		if len(add) == 0 {
			return s
		}
		na := s.a
		if len(s.a)+len(add) > cap(s.a) {
			nc := 2*cap(s.a) + len(add)
			na = make([]Val, len(s.a), nc)
			copy(na, s.a)
		}
		for _, v := range add {
			na = append(na, copyVal(v))
		}
		return Slice{na}
	case "copy":
		dst := args[0].(Slice)
		switch src := args[1].(type) {
		case Slice:
			n := len(dst.a)
			if len(src.a) < n {
				n = len(src.a)
			}
			tmp := make([]Val, n)
			for i := 0; i < n; i++ {
				tmp[i] = copyVal(src.a[i])
			}
			for i := 0; i < n; i++ {
				storeInto(&dst.a[i], tmp[i])
			}
			return tt.BV(64, uint64(n))
		case Str:
			n := len(dst.a)
			if len(src.s) < n {
				n = len(src.s)
			}
			for i := 0; i < n; i++ {
				dst.a[i] = in.strByte(src, i)
			}
			return tt.BV(64, uint64(n))
		}
	case "len":
		switch x := args[0].(type) {
		case Str:
			return tt.BV(64, uint64(len(x.s)))
		case Slice:
			return tt.BV(64, uint64(len(x.a)))
		case Array:
			return tt.BV(64, uint64(len(x)))
		case *Map:
			if x == nil {
				return tt.BV(64, 0)
			}
			return tt.BV(64, uint64(x.n))
		case *Val:
			return tt.BV(64, uint64(len((*x).(Array))))
		}
	case "cap":
		switch x := args[0].(type) {
		case Slice:
			return tt.BV(64, uint64(cap(x.a)))
		case Array:
			return tt.BV(64, uint64(len(x)))
		case *Val:
			return tt.BV(64, uint64(len((*x).(Array))))
		}
	case "delete":
		if m := args[0].(*Map); m != nil {
			in.mapDelete(m, args[1])
		}
		return nil
	case "panic":
		panic(goPanic{args[0]})
	case "recover":
		// caller is the deferred function's frame; its caller is the
		// function that is panicking.
		if caller != nil && caller.caller != nil && caller.caller.panicking {
			f := caller.caller
			f.panicking = false
			pv := f.panicVal.val
			if rp, ok := pv.(RuntimePanic); ok {
				return Iface{t: in.errorType, v: rp}
			}
			if i, ok := pv.(Iface); ok {
				return i
			}
			return Iface{t: in.errorType, v: pv}
		}
		return Iface{}
	case "print", "println":
		return nil
	case "min", "max":
		r := args[0]
		for _, a := range args[1:] {
			x, y := r.(*Term), a.(*Term)
			// operand signedness is not available here; used only on ints
			var lt *Term
			lt = tt.Slt(y, x)
			if b.Name() == "max" {
				lt = tt.Slt(x, y)
			}
			r = tt.Ite(lt, y, x)
		}
		return r
	case "clear":
		switch x := args[0].(type) {
		case *Map:
			if x != nil {
				x.entries = nil
				x.idx = map[interface{}]int{}
				x.n = 0
				x.allConc = true
			}
		}
		return nil
	}
	panic(in.unsupported(fmt.Sprintf("builtin %s(%T...)", b.Name(), args[0])))
}

var _ = math.MaxInt
