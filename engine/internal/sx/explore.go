package sx

// explore.go: path exploration by deterministic re-execution. A path is
// identified by its sequence of decisions; `decide` replays the prefix and
// consults the solver for the first new decision.

import (
	"fmt"
	"os"
	"sort"
)

type endKind int

const (
	endInfeasible endKind = iota // assumption unsatisfiable on this path
	endUnsupported
	endBudget
	endViolationStop
	endExit // os.Exit called
	endCut  // path deliberately not followed (recorded as a cut)
)

// pathEnd is thrown (as a Go panic) to terminate the current path.
type pathEnd struct {
	kind endKind
	msg  string
}

// pfx is one entry of a path prefix: a binary decision (v in {0,1}), an n-way
// choice (v = index) or a concretisation (v = chosen value; ex marks the
// continuation entry "next value not in excl", whose value v is already known
// to be feasible).
type pfx struct {
	v    int64
	ex   bool
	excl []uint64
	ch   uint64 // structural hash of the condition decided (replay-divergence guard)
}

type decisionRec struct {
	p   pfx
	lit *Term // nil for n-way nondet choices
}

type pendingPath struct {
	prefix []pfx
	model  Model
}

type NondetRec struct {
	Kind  string  // "string" "byte" "bool" "int" "choice"
	Terms []*Term // symbolic parts
	Val   int     // for choice
	W     int
}

// Counterexample is one failed obligation with a satisfying assignment.
type Counterexample struct {
	Kind   string // "assert" "panic" "exit" "budget"
	Msg    string
	Values []ReplayValue
	Obs    []string
}

type ReplayValue struct {
	Kind  string `json:"kind"`
	Bytes []int  `json:"bytes,omitempty"`
	Int   int64  `json:"int"`
}

type PathStats struct {
	Paths          int
	Infeasible     int
	Forks          int
	Steps          int64
	ObligationsQ   int // obligation queries sent to the solver
	ObligationsU   int // ... answered unsat
	ObligationsC   int // obligations that were concretely true (no query needed)
	ObligationsSat int
	ObligUnknown   int
	FeasQ          int
	FeasUnknown    int
	Unsupported    map[string]int
	BudgetOverruns int
	PathCapHit     bool
	DomDecided     int
	DomChecked     int
	DomDisagree    int
	Cuts           map[string]int
}

func (in *Interp) resetPath(p pendingPath) {
	in.prefix = p.prefix
	in.trace = in.trace[:0]
	in.pc = in.pc[:0]
	for k := range in.pcSet {
		delete(in.pcSet, k)
	}
	in.model = p.model
	in.steps = 0
	in.nondet = in.nondet[:0]
	in.obs = in.obs[:0]
	in.varCounter = 0
	in.env = map[string]Str{}
	in.stdout = in.stdout[:0]
	in.stderr = in.stderr[:0]
	in.reachPath = in.reachPath[:0]
	in.termWidth = -1
	in.assumedKnown = in.assumedKnown[:0]
	in.callDepth = 0
	in.timeCounter = 0
	in.dom = map[int]*byteDom{}
	in.tagOverride = map[tagKey]Str{}
	in.multi = map[int]bool{}
}

// crossCheckDom re-decides a domain decision with the solver.
func (in *Interp) crossCheckDom(c *Term, feasT, feasF bool) {
	in.syncSolver()
	in.solver.SetTimeout(in.feasTimeoutMs)
	rT := in.solver.Check(c)
	rF := in.solver.Check(in.tt.Not(c))
	in.stats.DomChecked++
	if (rT == Sat) != feasT && rT != Unknown || (rF == Sat) != feasF && rF != Unknown {
		in.stats.DomDisagree++
		in.inconclusive("byte-domain propagation disagrees with the solver on " + c.String())
	}
}

// ---- byte-domain propagation ----
//
// Path conditions are dominated by literals over a single input byte. For a
// variable x of width <= 8 that so far occurs only in single-variable
// literals, the set of values consistent with the path condition is kept
// exactly (a 256-bit set), and a new condition over x alone is decided by
// evaluating it on that set - an exact finite-domain decision, no solver
// round trip. As soon as x occurs in a literal with another variable it is
// marked entangled and the solver decides. A sample of the domain decisions
// is re-decided by the solver (DomChecked / DomDisagree in the statistics).

type byteDom [4]uint64

func (d *byteDom) has(v uint64) bool { return d[v>>6]&(1<<(v&63)) != 0 }
func (d *byteDom) set(v uint64)      { d[v>>6] |= 1 << (v & 63) }
func (d *byteDom) empty() bool       { return d[0]|d[1]|d[2]|d[3] == 0 }
func (d *byteDom) first() uint64 {
	for v := uint64(0); v < 256; v++ {
		if d.has(v) {
			return v
		}
	}
	return 0
}

func fullDom(w uint8) byteDom {
	var d byteDom
	n := uint64(2)
	if w > 0 {
		n = 1 << w
	}
	for v := uint64(0); v < n; v++ {
		d.set(v)
	}
	return d
}

func (in *Interp) domOf(x *Term) byteDom {
	if d, ok := in.dom[x.id]; ok {
		return *d
	}
	return fullDom(x.w)
}

// splitDom partitions dom(x) by the truth value of c (which depends on x only).
func (in *Interp) splitDom(c, x *Term) (t, f byteDom) {
	d := in.domOf(x)
	n := uint64(2)
	if x.w > 0 {
		n = 1 << x.w
	}
	for v := uint64(0); v < n; v++ {
		if !d.has(v) {
			continue
		}
		in.epoch++
		if in.tt.eval1(c, v, in.epoch) != 0 {
			t.set(v)
		} else {
			f.set(v)
		}
	}
	return
}

// splittable reports whether every leaf of the and/or tree c depends on at
// most one variable of width <= 8.
func (in *Interp) splittable(c *Term) bool {
	if c.op == OpAnd || c.op == OpOr {
		return in.splittable(c.a) && in.splittable(c.b)
	}
	if c.op == OpNot && (c.a.op == OpAnd || c.a.op == OpOr) {
		return in.splittable(c.a)
	}
	x, n := c.freeVar()
	return n == 0 || (n == 1 && x.w <= 8)
}

// domVar returns the variable of c if c is decidable by domain enumeration.
func (in *Interp) domVar(c *Term) *Term {
	if in.noDom {
		return nil
	}
	x, n := c.freeVar()
	if n == 1 && x.w <= 8 {
		return x
	}
	return nil
}

// modelWith returns a model equal to m except that x takes a value from d
// (m itself if it already does). nil stays nil.
func (in *Interp) modelWith(m Model, x *Term, d *byteDom) Model {
	if m == nil {
		return nil
	}
	if cur, ok := m[x.id]; ok && d.has(cur&maskb(x.w)) {
		return m
	}
	if _, ok := m[x.id]; !ok && d.has(0) {
		return m
	}
	m2 := make(Model, len(m)+1)
	for k, v := range m {
		m2[k] = v
	}
	m2[x.id] = d.first()
	return m2
}

func (in *Interp) replaying() bool { return len(in.trace) < len(in.prefix) }

func (in *Interp) addPC(lit *Term) {
	in.pc = append(in.pc, lit)
	in.pcSet[lit.id] = true
	if in.noDom {
		return
	}
	x, n := lit.freeVar()
	switch {
	case n == 1 && x.w <= 8:
		t, _ := in.splitDom(lit, x)
		in.dom[x.id] = &t
	case n >= 1:
		var vars []*Term
		lit.collectVars(map[int]bool{}, &vars)
		for _, v := range vars {
			in.multi[v.id] = true
		}
	}
}

// syncSolver makes the solver's assertion stack equal to in.pc.
func (in *Interp) syncSolver() {
	st := in.solver.stack
	n := 0
	for n < len(st) && n < len(in.pc) && st[n] == in.pc[n] {
		n++
	}
	in.solver.PopTo(n)
	for _, l := range in.pc[n:] {
		in.solver.Push(l)
	}
}

func (in *Interp) evalBool(c *Term, m Model) bool {
	return in.tt.Eval(c, m, map[int]uint64{}) != 0
}

// known reports whether c's truth value is syntactically determined by pc.
func (in *Interp) known(c *Term) (val, ok bool) {
	if c.IsConst() {
		return c.k != 0, true
	}
	if in.pcSet[c.id] {
		return true, true
	}
	if c.op == OpNot {
		if in.pcSet[c.a.id] {
			return false, true
		}
	} else if n := in.tt.Not(c); in.pcSet[n.id] {
		return false, true
	}
	if c.op == OpAnd {
		if v1, ok1 := in.known(c.a); ok1 {
			if !v1 {
				return false, true
			}
			if v2, ok2 := in.known(c.b); ok2 {
				return v2, true
			}
		}
	}
	return false, false
}

// Decide returns the truth value of c on the current path, forking if both
// are feasible.
func (in *Interp) Decide(c *Term) bool {
	if v, ok := in.known(c); ok {
		return v
	}
	// A conjunction / disjunction of single-byte literals over several bytes
	// (string comparisons) is decided literal by literal, so that no byte
	// becomes entangled with another one.
	if !in.noDom {
		if _, n := c.freeVar(); n >= 2 {
			switch {
			case c.op == OpAnd && in.splittable(c):
				return in.Decide(c.a) && in.Decide(c.b)
			case c.op == OpOr && in.splittable(c):
				return in.Decide(c.a) || in.Decide(c.b)
			case c.op == OpNot && (c.a.op == OpAnd || c.a.op == OpOr) && in.splittable(c.a):
				return !in.Decide(c.a)
			}
		}
	}
	pos := len(in.trace)
	if pos < len(in.prefix) {
		b := in.prefix[pos].v != 0
		if ch := in.prefix[pos].ch; ch != 0 && ch != c.h {
			panic(pathEnd{endUnsupported, "replay divergence: the re-executed path reached a different decision than the recorded one (engine nondeterminism)"})
		}
		lit := c
		if !b {
			lit = in.tt.Not(c)
		}
		in.trace = append(in.trace, decisionRec{in.prefix[pos], lit})
		in.addPC(lit)
		return b
	}
	in.stats.Forks++
	notc := in.tt.Not(c)
	feasT, feasF := false, false
	var mT, mF Model
	knownT, knownF := false, false // side decided without the solver
	if x := in.domVar(c); x != nil {
		dT, dF := in.splitDom(c, x)
		if !in.multi[x.id] {
			feasT, feasF = !dT.empty(), !dF.empty()
			knownT, knownF = true, true
			if feasT {
				mT = in.modelWith(in.model, x, &dT)
			}
			if feasF {
				mF = in.modelWith(in.model, x, &dF)
			}
			in.stats.DomDecided++
			if in.domCheckEvery > 0 && in.stats.DomDecided%in.domCheckEvery == 0 {
				in.crossCheckDom(c, feasT, feasF)
			}
		} else {
			// over-approximation: an empty side is certainly infeasible
			if dT.empty() {
				knownT = true
			}
			if dF.empty() {
				knownF = true
			}
		}
	}
	if !(knownT && knownF) {
		in.syncSolver()
	}
	if in.model != nil && !(knownT && knownF) {
		if in.evalBool(c, in.model) {
			if !knownT {
				feasT, mT, knownT = true, in.model, true
			}
		} else {
			if !knownF {
				feasF, mF, knownF = true, in.model, true
			}
		}
	}
	if !knownT && knownF && !feasF {
		// the path condition is satisfiable, so the other side is feasible
		feasT, knownT = true, true
	}
	if !knownF && knownT && !feasT {
		feasF, knownF = true, true
	}
	if !knownT {
		in.solver.SetTimeout(in.feasTimeoutMs)
		r, m := in.solver.CheckWithModel(c)
		in.stats.FeasQ++
		if r == Unknown {
			in.stats.FeasUnknown++
		}
		feasT, mT = r != Unsat, m
	}
	if !knownF {
		in.solver.SetTimeout(in.feasTimeoutMs)
		r, m := in.solver.CheckWithModel(notc)
		in.stats.FeasQ++
		if r == Unknown {
			in.stats.FeasUnknown++
		}
		feasF, mF = r != Unsat, m
	}
	switch {
	case feasT && feasF:
		pp := in.tracePrefix(pos + 1)
		pp[pos] = pfx{v: 0, ch: c.h}
		in.pending = append(in.pending, pendingPath{pp, mF})
		in.trace = append(in.trace, decisionRec{pfx{v: 1, ch: c.h}, c})
		in.addPC(c)
		in.model = mT
		return true
	case feasT:
		in.trace = append(in.trace, decisionRec{pfx{v: 1, ch: c.h}, c})
		in.addPC(c)
		in.model = mT
		return true
	case feasF:
		in.trace = append(in.trace, decisionRec{pfx{v: 0, ch: c.h}, notc})
		in.addPC(notc)
		in.model = mF
		return false
	}
	panic(pathEnd{endInfeasible, "path condition unsatisfiable"})
}

// Choose performs an n-way nondeterministic choice (no solver involved).
func (in *Interp) Choose(n int) int {
	if n <= 1 {
		return 0
	}
	pos := len(in.trace)
	if pos < len(in.prefix) {
		e := in.prefix[pos]
		in.trace = append(in.trace, decisionRec{e, nil})
		return int(e.v)
	}
	for i := n - 1; i >= 1; i-- {
		pp := in.tracePrefix(pos + 1)
		pp[pos] = pfx{v: int64(i)}
		in.pending = append(in.pending, pendingPath{pp, in.model})
	}
	in.trace = append(in.trace, decisionRec{pfx{}, nil})
	return 0
}

func (in *Interp) tracePrefix(n int) []pfx {
	pp := make([]pfx, n)
	for i, d := range in.trace {
		if i >= n {
			break
		}
		pp[i] = d.p
		pp[i].ex = false
		pp[i].excl = nil
	}
	return pp
}

// Concretize forks over the feasible values of t (one solver query per
// value) and returns the value of the current path.
func (in *Interp) Concretize(t *Term) uint64 {
	if t.IsConst() {
		return t.k
	}
	w := int(t.w)
	pos := len(in.trace)
	var excl []uint64
	var val uint64
	haveVal := false
	if pos < len(in.prefix) {
		e := in.prefix[pos]
		val = uint64(e.v)
		haveVal = true
		if !e.ex {
			lit := in.tt.Eq(t, in.tt.BV(w, val))
			in.trace = append(in.trace, decisionRec{pfx{v: e.v}, lit})
			in.addPC(lit)
			return val
		}
		excl = e.excl
	}
	in.stats.Forks++
	if x := in.domVar(t); x != nil && !in.multi[x.id] {
		// exact enumeration of the reachable values over dom(x)
		d := in.domOf(x)
		pre := map[uint64]uint64{}
		var vals []uint64
		for v := uint64(0); v < 256; v++ {
			if !d.has(v) {
				continue
			}
			in.epoch++
			r := in.tt.eval1(t, v, in.epoch)
			if _, ok := pre[r]; !ok {
				pre[r] = v
				vals = append(vals, r)
			}
		}
		sort.Slice(vals, func(i, j int) bool { return vals[i] < vals[j] })
		isEx := func(list []uint64, v uint64) bool {
			for _, e := range list {
				if e == v {
					return true
				}
			}
			return false
		}
		if !haveVal {
			found := false
			for _, r := range vals {
				if !isEx(excl, r) {
					val, found = r, true
					break
				}
			}
			if !found {
				panic(pathEnd{endInfeasible, "no value left"})
			}
		}
		excl2 := append(append([]uint64{}, excl...), val)
		mk := func(r uint64) Model {
			var one byteDom
			one.set(pre[r])
			return in.modelWith(in.model, x, &one)
		}
		for _, r := range vals {
			if !isEx(excl2, r) {
				pp := in.tracePrefix(pos + 1)
				pp[pos] = pfx{v: int64(r), ex: true, excl: excl2}
				in.pending = append(in.pending, pendingPath{pp, mk(r)})
				break
			}
		}
		in.stats.DomDecided++
		lit := in.tt.Eq(t, in.tt.BV(w, val))
		in.trace = append(in.trace, decisionRec{pfx{v: int64(val)}, lit})
		in.model = mk(val)
		in.addPC(lit)
		return val
	}
	if !haveVal {
		m := in.currentModel()
		if m == nil {
			panic(pathEnd{endUnsupported, "concretisation without a model"})
		}
		val = in.tt.Eval(t, m, map[int]uint64{})
	}
	// look ahead: is there another feasible value?
	excl2 := append(append([]uint64{}, excl...), val)
	if len(excl2) > 300 {
		panic(pathEnd{endUnsupported, "concretisation with more than 300 feasible values"})
	}
	cond := in.tt.True
	for _, x := range excl2 {
		cond = in.tt.And(cond, in.tt.Not(in.tt.Eq(t, in.tt.BV(w, x))))
	}
	in.syncSolver()
	in.solver.SetTimeout(in.feasTimeoutMs)
	r, m2 := in.solver.CheckWithModel(cond)
	in.stats.FeasQ++
	if r == Unknown {
		in.stats.FeasUnknown++
		in.inconclusive("solver unknown while enumerating values")
	}
	if r == Sat {
		next := in.tt.Eval(t, m2, map[int]uint64{})
		pp := in.tracePrefix(pos + 1)
		pp[pos] = pfx{v: int64(next), ex: true, excl: excl2}
		in.pending = append(in.pending, pendingPath{pp, m2})
	}
	lit := in.tt.Eq(t, in.tt.BV(w, val))
	in.trace = append(in.trace, decisionRec{pfx{v: int64(val)}, lit})
	in.addPC(lit)
	if in.model != nil && in.tt.Eval(t, in.model, map[int]uint64{}) != val {
		in.model = nil
	}
	return val
}

// Assume constrains the path.
func (in *Interp) Assume(c *Term) {
	if v, ok := in.known(c); ok {
		if !v {
			panic(pathEnd{endInfeasible, "assume false"})
		}
		return
	}
	if !in.replaying() {
		if in.model != nil && in.evalBool(c, in.model) {
			// feasible, model still valid
		} else if x := in.domVar(c); x != nil && !in.multi[x.id] {
			dT, _ := in.splitDom(c, x)
			if dT.empty() {
				panic(pathEnd{endInfeasible, "assume unsatisfiable"})
			}
			in.model = in.modelWith(in.model, x, &dT)
			in.stats.DomDecided++
		} else {
			in.syncSolver()
			in.solver.SetTimeout(in.feasTimeoutMs)
			r, m := in.solver.CheckWithModel(c)
			in.stats.FeasQ++
			if r == Unsat {
				panic(pathEnd{endInfeasible, "assume unsatisfiable"})
			}
			if r == Unknown {
				in.stats.FeasUnknown++
			}
			in.model = m
		}
	}
	in.addPC(c)
}

// currentModel returns an assignment satisfying the path condition.
func (in *Interp) currentModel() Model {
	if in.model != nil {
		return in.model
	}
	in.syncSolver()
	r, m := in.solver.CheckWithModel(nil)
	if r == Sat {
		in.model = m
		return m
	}
	return nil
}

// Assert discharges the obligation pc => c.
func (in *Interp) Assert(c *Term, msg string) {
	if c.IsConst() {
		if c.k != 0 {
			if !in.replaying() {
				in.stats.ObligationsC++
			}
			return
		}
		in.violation("assert", msg, in.currentModel())
		panic(pathEnd{endViolationStop, msg})
	}
	if v, ok := in.known(c); ok && v {
		return
	}
	if in.replaying() {
		// decided when the path that spawned this prefix ran through here
		in.Assume(c)
		return
	}
	in.syncSolver()
	in.solver.SetTimeout(in.obligTimeoutMs)
	in.stats.ObligationsQ++
	notc := in.tt.Not(c)
	r, m := in.solver.CheckWithModel(notc)
	if in.obligLog != nil {
		in.obligLog(append(append([]*Term{}, in.pc...), notc), r)
	}
	switch r {
	case Unsat:
		in.stats.ObligationsU++
		in.pcSet[c.id] = true
		return
	case Unknown:
		in.stats.ObligUnknown++
		in.inconclusive("solver unknown on obligation: " + msg)
		in.Assume(c)
		return
	}
	in.stats.ObligationsSat++
	in.violation("assert", msg, m)
	// continue under the assumption that the assertion holds, if possible
	in.model = nil
	in.Assume(c)
}

func (in *Interp) inconclusive(msg string) {
	if in.stats.Unsupported == nil {
		in.stats.Unsupported = map[string]int{}
	}
	in.stats.Unsupported[msg]++
}

func (in *Interp) violation(kind, msg string, m Model) {
	key := kind + ":" + msg
	in.cexCount[key]++
	if in.cexCount[key] > in.maxCexPerKey {
		return
	}
	if m == nil {
		in.inconclusive("no model for violation: " + msg)
		return
	}
	cex := Counterexample{Kind: kind, Msg: msg, Values: in.concretizeNondet(m), Obs: in.concretizeObs(m)}
	in.cexs = append(in.cexs, cex)
}

func (in *Interp) concretizeNondet(m Model) []ReplayValue {
	memo := map[int]uint64{}
	var out []ReplayValue
	for _, r := range in.nondet {
		rv := ReplayValue{Kind: r.Kind}
		switch r.Kind {
		case "string":
			rv.Bytes = make([]int, len(r.Terms))
			for i, t := range r.Terms {
				rv.Bytes[i] = int(in.tt.Eval(t, m, memo))
			}
		case "choice":
			rv.Int = int64(r.Val)
		case "int":
			rv.Int = sext64(in.tt.Eval(r.Terms[0], m, memo), uint8(r.W))
		default:
			rv.Int = int64(in.tt.Eval(r.Terms[0], m, memo))
		}
		out = append(out, rv)
	}
	return out
}

type obsRec struct {
	label string
	v     Val
}

func (in *Interp) concretizeObs(m Model) []string {
	memo := map[int]uint64{}
	var out []string
	for _, o := range in.obs {
		out = append(out, o.label+"="+in.renderConc(o.v, m, memo))
	}
	return out
}

func (in *Interp) renderConc(v Val, m Model, memo map[int]uint64) string {
	switch x := v.(type) {
	case *Term:
		if x.w == 0 {
			if in.tt.Eval(x, m, memo) != 0 {
				return "true"
			}
			return "false"
		}
		return fmt.Sprint(sext64(in.tt.Eval(x, m, memo), x.w))
	case Str:
		b := []byte(x.s)
		if x.sym != nil {
			for i, t := range x.sym {
				if t != nil {
					b[i] = byte(in.tt.Eval(t, m, memo))
				}
			}
		}
		return fmt.Sprintf("%q", string(b))
	case Slice:
		s := "["
		for i, e := range x.a {
			if i > 0 {
				s += ","
			}
			s += in.renderConc(e, m, memo)
		}
		return s + "]"
	}
	return fmt.Sprintf("%T", v)
}

// trimTerms: term-table size at which composite terms are dropped between paths.
const trimTerms = 1_500_000

// Explore runs entry on all feasible paths.
func (in *Interp) Explore(run func()) {
	in.pending = []pendingPath{{in.startPrefix, Model{}}}
	if in.startPrefix != nil {
		in.pending[0].model = nil
	}
	progress := os.Getenv("GOSYMX_PROGRESS") != ""
	for len(in.pending) > 0 {
		if in.maxPaths > 0 && in.stats.Paths >= in.maxPaths {
			in.stats.PathCapHit = true
			in.inconclusive("path cap reached")
			return
		}
		p := in.pending[len(in.pending)-1]
		in.pending = in.pending[:len(in.pending)-1]
		if in.tt.Size() > trimTerms {
			// bound the memory of long items: composite terms of finished
			// paths are garbage
			in.tt.Trim()
			in.solver.Reset()
			in.lastReset = in.solver.Queries
		}
		if in.solver.Queries-in.lastReset > 4000 {
			in.solver.Reset()
			in.lastReset = in.solver.Queries
		}
		in.resetPath(p)
		in.runPath(run)
		in.stats.Steps += in.steps
		if in.sharing != nil && len(in.pending) >= 2 && in.sharing.Idle() {
			n := len(in.pending) / 2
			var items []Item
			for _, pp := range in.pending[:n] {
				it := in.curItem
				it.Start = &StartPrefix{p: pp.prefix}
				items = append(items, it)
			}
			in.pending = append([]pendingPath{}, in.pending[n:]...)
			in.sharing.Donate(items)
		}
		if progress {
			fmt.Fprintf(os.Stderr, "path %d steps=%d forks=%d pending=%d infeasible=%d trace=%d pc=%d terms=%d\n", in.stats.Paths, in.steps, in.stats.Forks, len(in.pending), in.stats.Infeasible, len(in.trace), len(in.pc), in.tt.nextID)
			if len(in.trace) > 0 && in.trace[len(in.trace)-1].lit != nil {
				fmt.Fprintf(os.Stderr, "   last: %s\n", in.trace[len(in.trace)-1].lit)
			}
		}
	}
}

func (in *Interp) runPath(run func()) {
	defer func() {
		r := recover()
		if r == nil {
			in.stats.Paths++
			in.pathDone()
			return
		}
		switch e := r.(type) {
		case pathEnd:
			switch e.kind {
			case endInfeasible:
				in.stats.Infeasible++
			case endUnsupported:
				in.stats.Paths++
				in.inconclusive("unsupported: " + e.msg)
			case endBudget:
				in.stats.Paths++
				in.stats.BudgetOverruns++
				in.violation("budget", "step budget exceeded: "+e.msg, in.currentModel())
			case endCut:
				in.stats.Paths++
				if in.stats.Cuts == nil {
					in.stats.Cuts = map[string]int{}
				}
				in.stats.Cuts[e.msg]++
			case endViolationStop:
				in.stats.Paths++
			case endExit:
				in.stats.Paths++
				if !in.exitExpected {
					in.violation("exit", "os.Exit called", in.currentModel())
				}
				in.pathDone()
			}
		case goPanic:
			in.stats.Paths++
			in.violation("panic", "panic: "+in.panicString(e.val), in.currentModel())
		default:
			panic(r)
		}
	}()
	run()
}
