package sx

// solver.go: a persistent SMT-LIB2 pipe to z3 (or another solver binary) with
// a push/pop stack that mirrors the current path condition.

import (
	"bufio"
	"fmt"
	"io"
	"os/exec"
	"strconv"
	"strings"
	"time"
)

type Result int

const (
	Unsat Result = iota
	Sat
	Unknown
)

func (r Result) String() string { return [...]string{"unsat", "sat", "unknown"}[r] }

type Solver struct {
	cmd     *exec.Cmd
	in      io.WriteCloser
	out     *bufio.Reader
	tt      *TermTable
	defined map[int]bool
	stack   []*Term // asserted literals, one push level each
	ufDecls map[string]bool
	UFList  []string

	Queries   int
	SolveTime time.Duration
	Errors    []string
	Unknowns  int
	timeoutMs int
	Log       io.Writer
}

func NewSolver(tt *TermTable, bin string, args ...string) (*Solver, error) {
	cmd := exec.Command(bin, args...)
	in, err := cmd.StdinPipe()
	if err != nil {
		return nil, err
	}
	outp, err := cmd.StdoutPipe()
	if err != nil {
		return nil, err
	}
	cmd.Stderr = nil
	if err := cmd.Start(); err != nil {
		return nil, err
	}
	s := &Solver{cmd: cmd, in: in, out: bufio.NewReaderSize(outp, 1<<16), tt: tt, defined: map[int]bool{}, ufDecls: map[string]bool{}}
	s.send("(set-option :global-declarations true)")
	s.send("(set-option :produce-models true)")
	s.SetTimeout(10000)
	return s, nil
}

// Reset clears the solver state (accumulated definitions slow z3 down).
func (s *Solver) Reset() {
	s.send("(reset)")
	s.send("(set-option :global-declarations true)")
	s.send("(set-option :produce-models true)")
	ms := s.timeoutMs
	s.timeoutMs = -1
	s.SetTimeout(ms)
	s.defined = map[int]bool{}
	s.stack = nil
	for _, d := range s.UFList {
		s.send(d)
	}
}

func NewZ3(tt *TermTable) (*Solver, error) { return NewSolver(tt, "z3", "-in") }

func (s *Solver) SetTimeout(ms int) {
	if s.timeoutMs == ms {
		return
	}
	s.timeoutMs = ms
	s.send(fmt.Sprintf("(set-option :timeout %d)", ms))
}

func (s *Solver) Close() {
	s.in.Close()
	s.cmd.Process.Kill()
	s.cmd.Wait()
}

func (s *Solver) send(line string) {
	if s.Log != nil {
		fmt.Fprintln(s.Log, line)
	}
	io.WriteString(s.in, line)
	io.WriteString(s.in, "\n")
}

// DeclareUF declares an uninterpreted function once.
func (s *Solver) DeclareUF(name string, argW []int, resW int) {
	if s.ufDecls[name] {
		return
	}
	s.ufDecls[name] = true
	var as []string
	for _, w := range argW {
		as = append(as, sortStr(uint8(w)))
	}
	d := fmt.Sprintf("(declare-fun %s (%s) %s)", name, strings.Join(as, " "), sortStr(uint8(resW)))
	s.UFList = append(s.UFList, d)
	s.send(d)
}

func (s *Solver) define(t *Term) {
	var out []string
	t.defs(s.defined, &out)
	for _, l := range out {
		s.send(l)
	}
}

// Depth is the number of literals currently asserted.
func (s *Solver) Depth() int { return len(s.stack) }

func (s *Solver) Push(lit *Term) {
	s.define(lit)
	s.send("(push 1)")
	s.send("(assert " + lit.ref() + ")")
	s.stack = append(s.stack, lit)
}

func (s *Solver) PopTo(depth int) {
	if n := len(s.stack) - depth; n > 0 {
		s.send(fmt.Sprintf("(pop %d)", n))
		s.stack = s.stack[:depth]
	}
}

func (s *Solver) readLine() string {
	line, err := s.out.ReadString('\n')
	if err != nil {
		return "(error \"solver died: " + err.Error() + "\")"
	}
	return strings.TrimSpace(line)
}

// Check decides the current stack plus the optional extra literal.
func (s *Solver) Check(extra *Term) Result {
	start := time.Now()
	if extra != nil {
		s.define(extra)
		s.send("(push 1)")
		s.send("(assert " + extra.ref() + ")")
	}
	s.send("(check-sat)")
	res := s.readResult()
	if extra != nil {
		s.send("(pop 1)")
	}
	s.Queries++
	s.SolveTime += time.Since(start)
	return res
}

func (s *Solver) readResult() Result {
	for {
		line := s.readLine()
		switch {
		case line == "sat":
			return Sat
		case line == "unsat":
			return Unsat
		case line == "unknown" || line == "timeout":
			s.Unknowns++
			return Unknown
		case strings.HasPrefix(line, "(error"):
			s.Errors = append(s.Errors, line)
			if strings.Contains(line, "solver died") {
				return Unknown
			}
			// keep reading: the check-sat answer still follows
		case line == "":
		default:
			s.Errors = append(s.Errors, "unexpected: "+line)
		}
	}
}

// CheckWithModel is Check(extra) followed, on sat, by retrieval of the values
// of all variables (the model is taken inside the extra push level).
func (s *Solver) CheckWithModel(extra *Term) (Result, Model) {
	start := time.Now()
	if extra != nil {
		s.define(extra)
		s.send("(push 1)")
		s.send("(assert " + extra.ref() + ")")
	}
	s.send("(check-sat)")
	res := s.readResult()
	var m Model
	if res == Sat {
		m = s.getModel()
	}
	if extra != nil {
		s.send("(pop 1)")
	}
	s.Queries++
	s.SolveTime += time.Since(start)
	return res, m
}

func (s *Solver) getModel() Model {
	m := Model{}
	var vars []*Term
	for _, v := range s.tt.Vars {
		if s.defined[v.id] {
			vars = append(vars, v)
		}
	}
	if len(vars) == 0 {
		return m
	}
	var sb strings.Builder
	sb.WriteString("(get-value (")
	for _, v := range vars {
		sb.WriteString(v.name)
		sb.WriteByte(' ')
	}
	sb.WriteString("))")
	s.send(sb.String())
	// response: ((name val) (name val) ...) possibly over several lines
	text := s.readBalanced()
	toks := tokenize(text)
	// tokens: ( ( name val ) ( name val ) )
	byName := map[string]*Term{}
	for _, v := range vars {
		byName[v.name] = v
	}
	for i := 0; i+2 < len(toks); i++ {
		if toks[i] == "(" {
			if v, ok := byName[toks[i+1]]; ok {
				val, n := parseValue(toks[i+2:])
				_ = n
				m[v.id] = val
			}
		}
	}
	return m
}

func (s *Solver) readBalanced() string {
	depth := 0
	var sb strings.Builder
	started := false
	for {
		line := s.readLine()
		if strings.HasPrefix(line, "(error") {
			s.Errors = append(s.Errors, line)
			return ""
		}
		for _, c := range line {
			if c == '(' {
				depth++
				started = true
			} else if c == ')' {
				depth--
			}
		}
		sb.WriteString(line)
		sb.WriteByte(' ')
		if started && depth <= 0 {
			return sb.String()
		}
	}
}

func tokenize(s string) []string {
	var toks []string
	i := 0
	for i < len(s) {
		c := s[i]
		switch {
		case c == '(' || c == ')':
			toks = append(toks, string(c))
			i++
		case c == ' ' || c == '\n' || c == '\t' || c == '\r':
			i++
		default:
			j := i
			for j < len(s) && s[j] != '(' && s[j] != ')' && s[j] != ' ' && s[j] != '\n' {
				j++
			}
			toks = append(toks, s[i:j])
			i = j
		}
	}
	return toks
}

// parseValue parses #x.., #b.., true/false, (_ bvN w).
func parseValue(toks []string) (uint64, int) {
	if len(toks) == 0 {
		return 0, 0
	}
	t := toks[0]
	switch {
	case t == "true":
		return 1, 1
	case t == "false":
		return 0, 1
	case strings.HasPrefix(t, "#x"):
		v, _ := strconv.ParseUint(t[2:], 16, 64)
		return v, 1
	case strings.HasPrefix(t, "#b"):
		v, _ := strconv.ParseUint(t[2:], 2, 64)
		return v, 1
	case t == "(" && len(toks) >= 4 && toks[1] == "_" && strings.HasPrefix(toks[2], "bv"):
		v, _ := strconv.ParseUint(toks[2][2:], 10, 64)
		return v, 5
	}
	return 0, 1
}
