package sx

// value.go: run-time values of the symbolic interpreter.
//
//   bool, integers        *Term (Bool / BitVec of the Go type's width)
//   float32/float64       FloatV (concrete only)
//   string                Str (concrete length; bytes concrete or BV8 terms)
//   pointer               *Val   (nil pointer = (*Val)(nil))
//   struct                Struct ([]Val, one per field)
//   array                 Array  ([]Val)
//   slice                 Slice  (Go slice of cells; nil slice has a == nil)
//   map                   *Map   (nil map = (*Map)(nil))
//   interface             Iface{t, v}; the nil interface is Iface{}
//   func                  *ssa.Function, *ssa.Builtin, *Closure, *NativeFunc or FuncNil
//   tuple                 Tuple
//   reflect.Value         RValue ; reflect.Type's dynamic value RType
//   iterators             *StrIter, *MapIter

import (
	"fmt"
	"go/types"
	"strings"

	"golang.org/x/tools/go/ssa"
)

type Val interface{}

type Struct []Val
type Array []Val
type Tuple []Val

type Slice struct {
	a []Val // len/cap of the Go slice are the Go-level len/cap
}

type FloatV struct {
	f    float64
	bits int
	unk  bool // value not tracked (result of parsing symbolic text): any use of it is unsupported
}

type Iface struct {
	t types.Type
	v Val
}

type Closure struct {
	fn  *ssa.Function
	env []Val
}

type FuncNil struct{}

// NativeFunc is an engine-implemented function value (e.g. a bound reflect
// method or a harness helper).
type NativeFunc struct {
	name string
	fn   func(in *Interp, args []Val) Val
}

// Str is a string of concrete length. sym == nil means fully concrete (s).
// Otherwise len(sym) == len(s) and a non-nil sym[i] overrides s[i].
type Str struct {
	s   string
	sym []*Term
}

func ConcStr(s string) Str { return Str{s: s} }

func (x Str) Len() int { return len(x.s) }

func (x Str) IsConc() bool { return x.sym == nil }

func (x Str) norm() Str {
	if x.sym == nil {
		return x
	}
	var b []byte
	for i, t := range x.sym {
		if t != nil {
			if !t.IsConst() {
				return x
			}
			if b == nil {
				b = []byte(x.s)
			}
			b[i] = byte(t.k)
		}
	}
	if b != nil {
		return Str{s: string(b)}
	}
	return Str{s: x.s}
}

func (in *Interp) strByte(x Str, i int) *Term {
	if x.sym != nil && x.sym[i] != nil {
		return x.sym[i]
	}
	return in.tt.BV(8, uint64(x.s[i]))
}

func (in *Interp) strFromBytes(bs []*Term) Str {
	b := make([]byte, len(bs))
	var sym []*Term
	for i, t := range bs {
		if t.IsConst() {
			b[i] = byte(t.k)
		} else {
			if sym == nil {
				sym = make([]*Term, len(bs))
			}
			sym[i] = t
			b[i] = '?'
		}
	}
	return Str{s: string(b), sym: sym}
}

func (in *Interp) strBytes(x Str) []*Term {
	out := make([]*Term, len(x.s))
	for i := range out {
		out[i] = in.strByte(x, i)
	}
	return out
}

func strSlice(x Str, lo, hi int) Str {
	r := Str{s: x.s[lo:hi]}
	if x.sym != nil {
		for _, t := range x.sym[lo:hi] {
			if t != nil {
				r.sym = x.sym[lo:hi]
				break
			}
		}
	}
	return r
}

func strConcat(a, b Str) Str {
	if a.sym == nil && b.sym == nil {
		return Str{s: a.s + b.s}
	}
	if len(a.s) == 0 {
		return b
	}
	if len(b.s) == 0 {
		return a
	}
	sym := make([]*Term, len(a.s)+len(b.s))
	if a.sym != nil {
		copy(sym, a.sym)
	}
	if b.sym != nil {
		copy(sym[len(a.s):], b.sym)
	}
	return Str{s: a.s + b.s, sym: sym}
}

// strEq builds the Bool term a == b.
func (in *Interp) strEq(a, b Str) *Term {
	if len(a.s) != len(b.s) {
		return in.tt.False
	}
	if a.sym == nil && b.sym == nil {
		return in.tt.Bool(a.s == b.s)
	}
	r := in.tt.True
	for i := 0; i < len(a.s); i++ {
		sa := a.sym != nil && a.sym[i] != nil
		sb := b.sym != nil && b.sym[i] != nil
		if !sa && !sb {
			if a.s[i] != b.s[i] {
				return in.tt.False
			}
			continue
		}
		r = in.tt.And(r, in.tt.Eq(in.strByte(a, i), in.strByte(b, i)))
		if r == in.tt.False {
			return r
		}
	}
	return r
}

// strLess builds the Bool term a < b (lexicographic by byte).
func (in *Interp) strLess(a, b Str) *Term {
	if a.sym == nil && b.sym == nil {
		return in.tt.Bool(a.s < b.s)
	}
	n := len(a.s)
	if len(b.s) < n {
		n = len(b.s)
	}
	// from the end: less_i = a[i]<b[i] || (a[i]==b[i] && less_{i+1}); base: len(a)<len(b)
	r := in.tt.Bool(len(a.s) < len(b.s))
	for i := n - 1; i >= 0; i-- {
		x, y := in.strByte(a, i), in.strByte(b, i)
		r = in.tt.Or(in.tt.Ult(x, y), in.tt.And(in.tt.Eq(x, y), r))
	}
	return r
}

func (x Str) String() string {
	if x.sym == nil {
		return fmt.Sprintf("%q", x.s)
	}
	var sb strings.Builder
	sb.WriteString("sym\"")
	for i := 0; i < len(x.s); i++ {
		if x.sym[i] != nil {
			sb.WriteString("<" + x.sym[i].String() + ">")
		} else {
			sb.WriteByte(x.s[i])
		}
	}
	sb.WriteString("\"")
	return sb.String()
}

// ---- maps ----

type mapEntry struct {
	k, v    Val
	deleted bool
}

type Map struct {
	entries []*mapEntry
	idx     map[interface{}]int // concrete hashable key -> entry index
	allConc bool                // every live key is concrete-hashable
	n       int                 // live entries
}

func newMap() *Map { return &Map{idx: map[interface{}]int{}, allConc: true} }

// ---- iterators ----

type StrIter struct {
	s   Str
	pos int
}

type MapIter struct {
	m     *Map
	order []int // entry indices still to visit (insertion order mode)
	pos   int
	keys  []Val // snapshot for nondet mode
}

// ---- reflect model values ----

// RValue models reflect.Value.
type RValue struct {
	t    types.Type // nil: the invalid Value
	addr *Val       // non-nil iff addressable (or a settable indirection)
	v    Val        // value when not addressable
	ro   bool       // obtained through an unexported non-embedded field (sticky)
	roE  bool       // is itself an unexported embedded field (not inherited by its fields)
}

// RType models the dynamic value behind a reflect.Type interface.
type RType struct {
	t types.Type
}

func (r RValue) load() Val {
	if r.addr != nil {
		return *r.addr
	}
	return r.v
}

// ---- copying and zero values ----

// copyVal returns a copy of v with value semantics (structs/arrays deep).
func copyVal(v Val) Val {
	switch x := v.(type) {
	case Struct:
		n := make(Struct, len(x))
		for i, f := range x {
			n[i] = copyVal(f)
		}
		return n
	case Array:
		n := make(Array, len(x))
		for i, f := range x {
			n[i] = copyVal(f)
		}
		return n
	case Tuple:
		n := make(Tuple, len(x))
		for i, f := range x {
			n[i] = copyVal(f)
		}
		return n
	}
	return v
}

// storeInto writes v to *addr with Go's value semantics: structs and arrays
// are overwritten in place (field/element addresses taken earlier stay valid).
func storeInto(addr *Val, v Val) {
	switch x := v.(type) {
	case Struct:
		if cur, ok := (*addr).(Struct); ok && len(cur) == len(x) {
			for i := range x {
				storeInto(&cur[i], x[i])
			}
			return
		}
	case Array:
		if cur, ok := (*addr).(Array); ok && len(cur) == len(x) {
			for i := range x {
				storeInto(&cur[i], x[i])
			}
			return
		}
	}
	*addr = copyVal(v)
}

func (in *Interp) zero(t types.Type) Val {
	if z, ok := in.zeroCache[t]; ok {
		return copyVal(z)
	}
	z := in.zero0(t)
	switch z.(type) {
	case Struct, Array:
	default:
		in.zeroCache[t] = z
	}
	return z
}

func (in *Interp) zero0(t types.Type) Val {
	if n, ok := t.(*types.Named); ok {
		if obj := n.Obj(); obj.Pkg() != nil && obj.Pkg().Path() == "reflect" && obj.Name() == "Value" {
			return RValue{}
		}
	}
	switch u := t.Underlying().(type) {
	case *types.Basic:
		switch {
		case u.Info()&types.IsBoolean != 0:
			return in.tt.False
		case u.Info()&types.IsInteger != 0:
			return in.tt.BV(in.intWidth(u), 0)
		case u.Info()&types.IsFloat != 0:
			if u.Kind() == types.Float32 {
				return FloatV{f: 0, bits: 32}
			}
			return FloatV{f: 0, bits: 64}
		case u.Info()&types.IsString != 0:
			return Str{}
		case u.Kind() == types.UnsafePointer:
			return (*Val)(nil)
		case u.Kind() == types.UntypedNil:
			return nil
		}
		panic(in.unsupported("zero of basic type " + u.String()))
	case *types.Pointer:
		return (*Val)(nil)
	case *types.Struct:
		s := make(Struct, u.NumFields())
		for i := range s {
			s[i] = in.zero(u.Field(i).Type())
		}
		return s
	case *types.Array:
		a := make(Array, u.Len())
		if u.Len() > 0 {
			z := in.zero(u.Elem())
			for i := range a {
				a[i] = copyVal(z)
			}
		}
		return a
	case *types.Slice:
		return Slice{}
	case *types.Map:
		return (*Map)(nil)
	case *types.Interface:
		return Iface{}
	case *types.Signature:
		return FuncNil{}
	case *types.Chan:
		return (*Val)(nil)
	case *types.Tuple:
		tu := make(Tuple, u.Len())
		for i := range tu {
			tu[i] = in.zero(u.At(i).Type())
		}
		return tu
	}
	panic(in.unsupported("zero of type " + t.String()))
}

func (in *Interp) intWidth(b *types.Basic) int {
	switch b.Kind() {
	case types.Int8, types.Uint8:
		return 8
	case types.Int16, types.Uint16:
		return 16
	case types.Int32, types.Uint32:
		return 32
	case types.UntypedRune:
		return 32
	}
	return 64
}

func isSigned(t types.Type) bool {
	b, ok := t.Underlying().(*types.Basic)
	return ok && b.Info()&types.IsInteger != 0 && b.Info()&types.IsUnsigned == 0
}

func isInteger(t types.Type) bool {
	b, ok := t.Underlying().(*types.Basic)
	return ok && b.Info()&types.IsInteger != 0
}

func isString(t types.Type) bool {
	b, ok := t.Underlying().(*types.Basic)
	return ok && b.Info()&types.IsString != 0
}

func isFloat(t types.Type) bool {
	b, ok := t.Underlying().(*types.Basic)
	return ok && b.Info()&types.IsFloat != 0
}

func isBoolean(t types.Type) bool {
	b, ok := t.Underlying().(*types.Basic)
	return ok && b.Info()&types.IsBoolean != 0
}
