package sx

// run.go: program loading, package initialisation and work-item execution.

import (
	"fmt"
	"go/types"
	"os"
	"path/filepath"
	"sort"
	"strings"
	"time"

	"golang.org/x/tools/go/packages"
	"golang.org/x/tools/go/ssa"
	"golang.org/x/tools/go/ssa/ssautil"
)

type Program struct {
	Prog *ssa.Program
	Pkg  *ssa.Package
}

// Load type-checks repo (with the harness files overlaid as
// repo/zz_verif_<name>) under build tag verif and builds SSA for the whole
// dependency closure.
func Load(repo string, harnessDir string) (*Program, error) {
	overlay := map[string][]byte{}
	files, _ := filepath.Glob(filepath.Join(harnessDir, "*.go"))
	for _, f := range files {
		if strings.HasSuffix(f, "_test.go") {
			continue
		}
		b, err := os.ReadFile(f)
		if err != nil {
			return nil, err
		}
		overlay[filepath.Join(repo, "zz_verif_"+filepath.Base(f))] = b
	}
	cfg := &packages.Config{
		Mode:       packages.LoadAllSyntax,
		Dir:        repo,
		BuildFlags: []string{"-tags=verif"},
		Overlay:    overlay,
		Env:        append(os.Environ(), "GOFLAGS=-mod=mod", "GOPROXY=off", "GOSUMDB=off", "GOTOOLCHAIN=local"),
	}
	pkgs, err := packages.Load(cfg, ".")
	if err != nil {
		return nil, err
	}
	if len(pkgs) != 1 {
		return nil, fmt.Errorf("expected 1 package, got %d", len(pkgs))
	}
	var errs []string
	packages.Visit(pkgs, nil, func(p *packages.Package) {
		for _, e := range p.Errors {
			errs = append(errs, e.Error())
		}
	})
	if len(errs) > 0 {
		return nil, fmt.Errorf("load errors:\n%s", strings.Join(errs, "\n"))
	}
	prog, spkgs := ssautil.AllPackages(pkgs, ssa.InstantiateGenerics)
	prog.Build()
	return &Program{Prog: prog, Pkg: spkgs[0]}, nil
}

// Item is one unit of work: a harness function under a concrete shape.
type Item struct {
	Harness  string
	Shape    map[string]int
	MaxPaths int
	Known    []string // names of known-finding predicates to assume away
	WitnessN int      // sample every n-th completed path as a witness (0 = none)
	MaxSteps int64
	Start    *StartPrefix // nil: explore from the root; else: only the subtree below this prefix
}

// StartPrefix is an opaque decision prefix handed from one worker to another
// (work stealing). Any worker can run any prefix because paths are explored
// by re-execution.
type StartPrefix struct {
	p []pfx
}

// Sharing lets a running worker give pending subtrees away when others idle.
type Sharing struct {
	Idle   func() bool
	Donate func(items []Item)
}

type ItemResult struct {
	Item       Item
	Stats      PathStats
	Cexs       []Counterexample
	Reach      map[string]int
	Funcs      []string
	Stubs      map[string]int
	Witnesses  []Witness
	KnownHits  map[string]int
	SolverQ    int
	SolverTime time.Duration
	SolverErrs []string
	Wall       time.Duration
	Fatal      string
	Terms      int
}

type Worker struct {
	P        *Program
	in       *Interp
	ObligDir string // if set, obligation queries are written here as .smt2
	obligN   int
}

func NewWorker(p *Program) (*Worker, error) {
	in := NewInterp(p.Prog, p.Pkg)
	s, err := NewZ3(in.tt)
	if err != nil {
		return nil, err
	}
	in.solver = s
	w := &Worker{P: p, in: in}
	if err := w.init(); err != nil {
		return nil, err
	}
	return w, nil
}

func (w *Worker) Close() { w.in.solver.Close() }

func (w *Worker) init() (err error) {
	in := w.in
	defer func() {
		if r := recover(); r != nil {
			err = fmt.Errorf("package initialisation failed: %v", r)
		}
	}()
	// engine objects for os.Stdout / os.Stderr / os.Args
	osp := in.prog.ImportedPackage("os")
	mkFile := func(name string) *Val {
		g := osp.Var(name)
		ft := g.Type().(*types.Pointer).Elem().(*types.Pointer).Elem()
		f := new(Val)
		*f = in.zero(ft)
		*in.global(g) = f
		return f
	}
	in.osStdout = mkFile("Stdout")
	in.osStderr = mkFile("Stderr")
	*in.global(osp.Var("Args")) = Slice{[]Val{ConcStr("prog")}}
	in.initMode = true
	in.maxSteps = 1 << 40
	in.resetPath(pendingPath{nil, Model{}})
	in.callFunction(nil, w.P.Pkg.Func("init"), nil, nil)
	in.initMode = false
	return nil
}

func (w *Worker) Run(item Item, sh *Sharing) (res ItemResult) {
	in := w.in
	start := time.Now()
	res.Item = item
	in.stats = PathStats{}
	in.cexs = nil
	in.cexCount = map[string]int{}
	in.reach = map[string]int{}
	in.itemEpoch++
	in.touched = in.touched[:0]
	in.witnesses = nil
	in.kfHits = map[string]int{}
	in.knownFindings = map[string]bool{}
	for _, k := range item.Known {
		in.knownFindings[k] = true
	}
	in.shape = item.Shape
	in.maxPaths = item.MaxPaths
	in.maxSteps = 3_000_000
	if item.MaxSteps > 0 {
		in.maxSteps = item.MaxSteps
	}
	in.witnessEvery = item.WitnessN
	in.mapNondet = false
	in.exitExpected = false
	q0, t0 := in.solver.Queries, in.solver.SolveTime
	in.solver.Errors = nil
	if w.ObligDir != "" {
		in.obligLog = func(asserts []*Term, r Result) {
			w.obligN++
			if w.obligN > 2000 {
				return
			}
			name := filepath.Join(w.ObligDir, fmt.Sprintf("%s_%p_%d_%s.smt2", item.Harness, w, w.obligN, r))
			os.WriteFile(name, []byte(Standalone(in.solver.UFList, asserts)), 0o644)
		}
	} else {
		in.obligLog = nil
	}
	fn := w.P.Pkg.Func(item.Harness)
	if fn == nil {
		res.Fatal = "harness function not found: " + item.Harness
		return
	}
	func() {
		defer func() {
			if r := recover(); r != nil {
				res.Fatal = fmt.Sprintf("engine panic: %v", r)
				if os.Getenv("GOSYMX_DEBUG") != "" {
					panic(r)
				}
			}
		}()
		vt := fn.Signature.Params().At(0).Type().(*types.Pointer).Elem()
		in.sharing = sh
		in.curItem = item
		in.startPrefix = nil
		if item.Start != nil {
			in.startPrefix = item.Start.p
		}
		in.Explore(func() {
			in.mapNondet = false
			in.exitExpected = false
			vp := new(Val)
			*vp = in.zero(vt)
			in.callFunction(nil, fn, []Val{vp}, nil)
		})
	}()
	in.solver.PopTo(0)
	res.Stats = in.stats
	res.Cexs = in.cexs
	res.Reach = in.reach
	res.Stubs = map[string]int{}
	for _, fi := range in.touched {
		if fi.intrinsic != nil {
			res.Stubs[fi.name] += fi.calls
		} else if fi.fn.Blocks != nil {
			res.Funcs = append(res.Funcs, fi.name)
		}
	}
	sort.Strings(res.Funcs)
	res.Witnesses = in.witnesses
	res.KnownHits = in.kfHits
	res.SolverQ = in.solver.Queries - q0
	res.SolverTime = in.solver.SolveTime - t0
	res.SolverErrs = in.solver.Errors
	res.Wall = time.Since(start)
	res.Terms = in.tt.nextID
	return
}

// pathDone is called when a path ran to completion.
func (in *Interp) pathDone() {
	for _, l := range in.reachPath {
		in.reach[l]++
	}
	if in.witnessEvery > 0 && in.stats.Paths%in.witnessEvery == 0 && len(in.witnesses) < 64 {
		if m := in.currentModel(); m != nil {
			in.witnesses = append(in.witnesses, Witness{
				Values: in.concretizeNondet(m),
				Obs:    in.concretizeObs(m),
				Reach:  append([]string{}, in.reachPath...),
			})
		}
	}
}
