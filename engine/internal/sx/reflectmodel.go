package sx

// reflectmodel.go: the subset of package reflect used by go-flags, over the
// engine's own heap and go/types types.

import (
	"fmt"
	"go/types"
)

const (
	kInvalid = iota
	kBool
	kInt
	kInt8
	kInt16
	kInt32
	kInt64
	kUint
	kUint8
	kUint16
	kUint32
	kUint64
	kUintptr
	kFloat32
	kFloat64
	kComplex64
	kComplex128
	kArray
	kChan
	kFunc
	kInterface
	kMap
	kPtr
	kSlice
	kString
	kStruct
	kUnsafePointer
)

func kindOf(t types.Type) int {
	if t == nil {
		return kInvalid
	}
	switch u := t.Underlying().(type) {
	case *types.Basic:
		switch u.Kind() {
		case types.Bool, types.UntypedBool:
			return kBool
		case types.Int, types.UntypedInt:
			return kInt
		case types.Int8:
			return kInt8
		case types.Int16:
			return kInt16
		case types.Int32, types.UntypedRune:
			return kInt32
		case types.Int64:
			return kInt64
		case types.Uint:
			return kUint
		case types.Uint8:
			return kUint8
		case types.Uint16:
			return kUint16
		case types.Uint32:
			return kUint32
		case types.Uint64:
			return kUint64
		case types.Uintptr:
			return kUintptr
		case types.Float32:
			return kFloat32
		case types.Float64, types.UntypedFloat:
			return kFloat64
		case types.Complex64:
			return kComplex64
		case types.Complex128:
			return kComplex128
		case types.String, types.UntypedString:
			return kString
		case types.UnsafePointer:
			return kUnsafePointer
		}
	case *types.Array:
		return kArray
	case *types.Chan:
		return kChan
	case *types.Signature:
		return kFunc
	case *types.Interface:
		return kInterface
	case *types.Map:
		return kMap
	case *types.Pointer:
		return kPtr
	case *types.Slice:
		return kSlice
	case *types.Struct:
		return kStruct
	}
	return kInvalid
}

func (in *Interp) reflectPanic(msg string) goPanic {
	return goPanic{Iface{t: types.Typ[types.String], v: ConcStr("reflect: " + msg)}}
}

func (in *Interp) rtypeIface(t types.Type) Val {
	if t == nil {
		return Iface{}
	}
	if in.rtypePtr == nil {
		rp := in.prog.ImportedPackage("reflect")
		in.rtypePtr = types.NewPointer(rp.Pkg.Scope().Lookup("rtype").Type())
	}
	return Iface{t: in.rtypePtr, v: RType{t}}
}

func rtypeOf(v Val) types.Type {
	i := v.(Iface)
	if i.t == nil {
		panic(goPanic{RuntimePanic{"nil reflect.Type"}})
	}
	return i.v.(RType).t
}

func (in *Interp) kindTerm(t types.Type) *Term { return in.tt.BV(64, uint64(kindOf(t))) }

func (in *Interp) mustKind(r RValue, op string, kinds ...int) {
	k := kindOf(r.t)
	for _, x := range kinds {
		if k == x {
			return
		}
	}
	panic(in.reflectPanic(fmt.Sprintf("call of reflect.Value.%s on %v Value", op, r.t)))
}

func (in *Interp) mustSettable(r RValue, op string) {
	if r.addr == nil {
		panic(in.reflectPanic("reflect.Value." + op + " using unaddressable value"))
	}
	if r.ro || r.roE {
		panic(in.reflectPanic("reflect.Value." + op + " using value obtained using unexported field"))
	}
}

func (in *Interp) structFieldVal(st *types.Struct, i int) Val {
	f := st.Field(i)
	rp := in.prog.ImportedPackage("reflect")
	sft := rp.Pkg.Scope().Lookup("StructField").Type().Underlying().(*types.Struct)
	out := make(Struct, sft.NumFields())
	for j := 0; j < sft.NumFields(); j++ {
		switch sft.Field(j).Name() {
		case "Name":
			out[j] = ConcStr(f.Name())
		case "PkgPath":
			if f.Exported() {
				out[j] = Str{}
			} else {
				out[j] = ConcStr(f.Pkg().Path())
			}
		case "Type":
			out[j] = in.rtypeIface(f.Type())
		case "Tag":
			if ov, ok := in.tagOverride[tagKey{st, i}]; ok {
				out[j] = ov
			} else {
				out[j] = ConcStr(st.Tag(i))
			}
		case "Offset":
			out[j] = in.tt.BV(64, 0)
		case "Index":
			out[j] = Slice{[]Val{in.intv(i)}}
		case "Anonymous":
			out[j] = in.boolv(f.Embedded())
		default:
			out[j] = in.zero(sft.Field(j).Type())
		}
	}
	return out
}

type tagKey struct {
	st *types.Struct
	i  int
}

func (in *Interp) numMethod(t types.Type) int {
	if it, ok := t.Underlying().(*types.Interface); ok {
		return it.NumMethods()
	}
	ms := in.prog.MethodSets.MethodSet(t)
	n := 0
	for i := 0; i < ms.Len(); i++ {
		if ms.At(i).Obj().Exported() {
			n++
		}
	}
	return n
}

func (in *Interp) rtypeMethod(rt RType, name string, a []Val) Val {
	t := rt.t
	switch name {
	case "Kind":
		return in.kindTerm(t)
	case "Elem":
		switch u := t.Underlying().(type) {
		case *types.Pointer:
			return in.rtypeIface(u.Elem())
		case *types.Slice:
			return in.rtypeIface(u.Elem())
		case *types.Array:
			return in.rtypeIface(u.Elem())
		case *types.Map:
			return in.rtypeIface(u.Elem())
		case *types.Chan:
			return in.rtypeIface(u.Elem())
		}
		panic(in.reflectPanic("Elem of invalid type " + t.String()))
	case "Key":
		if u, ok := t.Underlying().(*types.Map); ok {
			return in.rtypeIface(u.Key())
		}
		panic(in.reflectPanic("Key of non-map type " + t.String()))
	case "Bits":
		switch kindOf(t) {
		case kInt, kUint, kInt64, kUint64, kUintptr, kFloat64, kComplex64:
			return in.intv(64)
		case kInt8, kUint8:
			return in.intv(8)
		case kInt16, kUint16:
			return in.intv(16)
		case kInt32, kUint32, kFloat32:
			return in.intv(32)
		case kComplex128:
			return in.intv(128)
		}
		panic(in.reflectPanic("Bits of non-arithmetic Type " + t.String()))
	case "NumMethod":
		return in.intv(in.numMethod(t))
	case "NumField":
		if u, ok := t.Underlying().(*types.Struct); ok {
			return in.intv(u.NumFields())
		}
		panic(in.reflectPanic("NumField of non-struct type " + t.String()))
	case "Field":
		u, ok := t.Underlying().(*types.Struct)
		if !ok {
			panic(in.reflectPanic("Field of non-struct type " + t.String()))
		}
		i := in.concInt(a[0])
		if i < 0 || i >= u.NumFields() {
			panic(in.reflectPanic("Field index out of bounds"))
		}
		return in.structFieldVal(u, i)
	case "NumIn":
		if u, ok := t.Underlying().(*types.Signature); ok {
			return in.intv(u.Params().Len())
		}
		panic(in.reflectPanic("NumIn of non-func type " + t.String()))
	case "In":
		u, ok := t.Underlying().(*types.Signature)
		if !ok {
			panic(in.reflectPanic("In of non-func type " + t.String()))
		}
		i := in.concInt(a[0])
		if i < 0 || i >= u.Params().Len() {
			panic(in.reflectPanic("In index out of range"))
		}
		return in.rtypeIface(u.Params().At(i).Type())
	case "NumOut":
		if u, ok := t.Underlying().(*types.Signature); ok {
			return in.intv(u.Results().Len())
		}
		panic(in.reflectPanic("NumOut of non-func type " + t.String()))
	case "String":
		return ConcStr(types.TypeString(t, func(p *types.Package) string { return p.Name() }))
	case "Name":
		if n, ok := t.(*types.Named); ok {
			return ConcStr(n.Obj().Name())
		}
		if b, ok := t.(*types.Basic); ok {
			return ConcStr(b.Name())
		}
		return Str{}
	case "Implements":
		return in.boolv(types.Implements(t, rtypeOf(a[0]).Underlying().(*types.Interface)))
	}
	panic(in.unsupported("reflect.Type." + name))
}

func (in *Interp) rvalSlice(rs []RValue) Slice {
	a := make([]Val, len(rs))
	for i, r := range rs {
		a[i] = r
	}
	return Slice{a}
}

// deepEqual builds the Bool term for reflect.DeepEqual on two values of the
// same static type.
func (in *Interp) deepEqual(x, y Val, depth int) *Term {
	tt := in.tt
	if depth > 20 {
		panic(in.unsupported("DeepEqual depth"))
	}
	switch a := x.(type) {
	case *Term:
		return tt.Eq(a, y.(*Term))
	case Str:
		return in.strEq(a, y.(Str))
	case FloatV:
		return tt.Bool(a.f == y.(FloatV).f)
	case Slice:
		b := y.(Slice)
		if (a.a == nil) != (b.a == nil) || len(a.a) != len(b.a) {
			return tt.False
		}
		r := tt.True
		for i := range a.a {
			r = tt.And(r, in.deepEqual(a.a[i], b.a[i], depth+1))
		}
		return r
	case Array:
		b := y.(Array)
		r := tt.True
		for i := range a {
			r = tt.And(r, in.deepEqual(a[i], b[i], depth+1))
		}
		return r
	case Struct:
		b := y.(Struct)
		r := tt.True
		for i := range a {
			r = tt.And(r, in.deepEqual(a[i], b[i], depth+1))
		}
		return r
	case *Map:
		b := y.(*Map)
		if (a == nil) != (b == nil) {
			return tt.False
		}
		if a == nil || a == b {
			return tt.True
		}
		if a.n != b.n {
			return tt.False
		}
		r := tt.True
		for _, ea := range a.entries {
			if ea.deleted {
				continue
			}
			found := tt.False
			for _, eb := range b.entries {
				if eb.deleted {
					continue
				}
				found = tt.Or(found, tt.And(in.equal(ea.k, eb.k), in.deepEqual(ea.v, eb.v, depth+1)))
			}
			r = tt.And(r, found)
		}
		return r
	case *Val:
		b := y.(*Val)
		if a == b {
			return tt.True
		}
		if a == nil || b == nil {
			return tt.False
		}
		return in.deepEqual(*a, *b, depth+1)
	case Iface:
		b := y.(Iface)
		if a.t == nil || b.t == nil {
			return tt.Bool(a.t == nil && b.t == nil)
		}
		if !types.Identical(a.t, b.t) {
			return tt.False
		}
		return in.deepEqual(a.v, b.v, depth+1)
	case FuncNil:
		_, ok := y.(FuncNil)
		return tt.Bool(ok)
	case RValue:
		panic(in.unsupported("DeepEqual on reflect.Value"))
	}
	if _, ok := y.(FuncNil); ok {
		return tt.False
	}
	// non-nil funcs are never deeply equal
	return tt.False
}

func registerReflect(in *Interp) {
	in.tagOverride = map[tagKey]Str{}
	I := in.intrinsics
	rv := func(v Val) RValue { return v.(RValue) }

	I["reflect.ValueOf"] = func(in *Interp, fr *frame, a []Val) Val {
		i := a[0].(Iface)
		if i.t == nil {
			return RValue{}
		}
		return RValue{t: i.t, v: i.v}
	}
	I["reflect.TypeOf"] = func(in *Interp, fr *frame, a []Val) Val {
		i := a[0].(Iface)
		return in.rtypeIface(i.t)
	}
	I["reflect.New"] = func(in *Interp, fr *frame, a []Val) Val {
		t := rtypeOf(a[0])
		p := new(Val)
		*p = in.zero(t)
		return RValue{t: types.NewPointer(t), v: p}
	}
	I["reflect.Zero"] = func(in *Interp, fr *frame, a []Val) Val {
		t := rtypeOf(a[0])
		return RValue{t: t, v: in.zero(t)}
	}
	I["reflect.MakeMap"] = func(in *Interp, fr *frame, a []Val) Val {
		t := rtypeOf(a[0])
		if kindOf(t) != kMap {
			panic(in.reflectPanic("MakeMap of non-map type"))
		}
		return RValue{t: t, v: newMap()}
	}
	elem := func(in *Interp, r RValue) RValue {
		switch kindOf(r.t) {
		case kPtr:
			p := r.load().(*Val)
			if p == nil {
				return RValue{}
			}
			return RValue{t: r.t.Underlying().(*types.Pointer).Elem(), addr: p, ro: r.ro || r.roE}
		case kInterface:
			i := r.load().(Iface)
			if i.t == nil {
				return RValue{}
			}
			return RValue{t: i.t, v: i.v, ro: r.ro || r.roE}
		}
		panic(in.reflectPanic("call of reflect.Value.Elem on " + fmt.Sprint(r.t) + " Value"))
	}
	I["reflect.Indirect"] = func(in *Interp, fr *frame, a []Val) Val {
		r := rv(a[0])
		if kindOf(r.t) != kPtr {
			return r
		}
		return elem(in, r)
	}
	I["(reflect.Value).Elem"] = func(in *Interp, fr *frame, a []Val) Val { return elem(in, rv(a[0])) }
	I["reflect.Append"] = func(in *Interp, fr *frame, a []Val) Val {
		s := rv(a[0])
		in.mustKind(s, "Append", kSlice)
		cur := s.load().(Slice)
		et := s.t.Underlying().(*types.Slice).Elem()
		na := make([]Val, len(cur.a), len(cur.a)+len(a[1].(Slice).a))
		copy(na, cur.a)
		for _, x := range a[1].(Slice).a {
			xr := rv(x)
			if !types.AssignableTo(xr.t, et) {
				panic(in.reflectPanic("Append: value of type " + xr.t.String() + " is not assignable to type " + et.String()))
			}
			na = append(na, copyVal(xr.load()))
		}
		return RValue{t: s.t, v: Slice{na}}
	}
	I["reflect.DeepEqual"] = func(in *Interp, fr *frame, a []Val) Val {
		x, y := a[0].(Iface), a[1].(Iface)
		if x.t == nil || y.t == nil {
			return in.boolv(x.t == nil && y.t == nil)
		}
		if !types.Identical(x.t, y.t) {
			return in.tt.False
		}
		return in.deepEqual(x.v, y.v, 0)
	}
	I["(reflect.Value).Type"] = func(in *Interp, fr *frame, a []Val) Val {
		r := rv(a[0])
		if r.t == nil {
			panic(in.reflectPanic("call of reflect.Value.Type on zero Value"))
		}
		return in.rtypeIface(r.t)
	}
	I["(reflect.Value).Kind"] = func(in *Interp, fr *frame, a []Val) Val { return in.kindTerm(rv(a[0]).t) }
	I["(reflect.Value).IsValid"] = func(in *Interp, fr *frame, a []Val) Val { return in.boolv(rv(a[0]).t != nil) }
	I["(reflect.Value).CanAddr"] = func(in *Interp, fr *frame, a []Val) Val { return in.boolv(rv(a[0]).addr != nil) }
	I["(reflect.Value).CanSet"] = func(in *Interp, fr *frame, a []Val) Val {
		r := rv(a[0])
		return in.boolv(r.addr != nil && !r.ro && !r.roE)
	}
	I["(reflect.Value).CanInterface"] = func(in *Interp, fr *frame, a []Val) Val {
		r := rv(a[0])
		if r.t == nil {
			panic(in.reflectPanic("call of reflect.Value.CanInterface on zero Value"))
		}
		return in.boolv(!r.ro && !r.roE)
	}
	I["(reflect.Value).Interface"] = func(in *Interp, fr *frame, a []Val) Val {
		r := rv(a[0])
		if r.t == nil {
			panic(in.reflectPanic("call of reflect.Value.Interface on zero Value"))
		}
		if r.ro || r.roE {
			panic(in.reflectPanic("reflect.Value.Interface: cannot return value obtained from unexported field or method"))
		}
		if kindOf(r.t) == kInterface {
			return r.load().(Iface)
		}
		return Iface{t: r.t, v: copyVal(r.load())}
	}
	I["(reflect.Value).Addr"] = func(in *Interp, fr *frame, a []Val) Val {
		r := rv(a[0])
		if r.addr == nil {
			panic(in.reflectPanic("reflect.Value.Addr of unaddressable value"))
		}
		return RValue{t: types.NewPointer(r.t), v: r.addr, ro: r.ro || r.roE}
	}
	I["(reflect.Value).IsNil"] = func(in *Interp, fr *frame, a []Val) Val {
		r := rv(a[0])
		switch x := r.load().(type) {
		case *Val:
			return in.boolv(x == nil)
		case *Map:
			return in.boolv(x == nil)
		case Slice:
			return in.boolv(x.a == nil)
		case Iface:
			return in.boolv(x.t == nil)
		case FuncNil:
			return in.tt.True
		}
		if kindOf(r.t) == kFunc {
			return in.tt.False
		}
		panic(in.reflectPanic("call of reflect.Value.IsNil on " + fmt.Sprint(r.t) + " Value"))
	}
	I["(reflect.Value).Set"] = func(in *Interp, fr *frame, a []Val) Val {
		r, x := rv(a[0]), rv(a[1])
		in.mustSettable(r, "Set")
		if x.t == nil {
			panic(in.reflectPanic("reflect.Set: value of type <invalid> is not assignable"))
		}
		if x.ro || x.roE {
			panic(in.reflectPanic("reflect.Set: value obtained using unexported field"))
		}
		if !types.AssignableTo(x.t, r.t) {
			panic(in.reflectPanic("reflect.Set: value of type " + x.t.String() + " is not assignable to type " + r.t.String()))
		}
		if kindOf(r.t) == kInterface && kindOf(x.t) != kInterface {
			*r.addr = Iface{t: x.t, v: copyVal(x.load())}
		} else {
			storeInto(r.addr, x.load())
		}
		return nil
	}
	I["(reflect.Value).SetString"] = func(in *Interp, fr *frame, a []Val) Val {
		r := rv(a[0])
		in.mustSettable(r, "SetString")
		in.mustKind(r, "SetString", kString)
		*r.addr = a[1].(Str)
		return nil
	}
	I["(reflect.Value).SetBool"] = func(in *Interp, fr *frame, a []Val) Val {
		r := rv(a[0])
		in.mustSettable(r, "SetBool")
		in.mustKind(r, "SetBool", kBool)
		*r.addr = a[1].(*Term)
		return nil
	}
	I["(reflect.Value).SetInt"] = func(in *Interp, fr *frame, a []Val) Val {
		r := rv(a[0])
		in.mustSettable(r, "SetInt")
		in.mustKind(r, "SetInt", kInt, kInt8, kInt16, kInt32, kInt64)
		w := in.intWidth(r.t.Underlying().(*types.Basic))
		*r.addr = in.tt.Extract(a[1].(*Term), w-1, 0)
		return nil
	}
	I["(reflect.Value).SetUint"] = func(in *Interp, fr *frame, a []Val) Val {
		r := rv(a[0])
		in.mustSettable(r, "SetUint")
		in.mustKind(r, "SetUint", kUint, kUint8, kUint16, kUint32, kUint64, kUintptr)
		w := in.intWidth(r.t.Underlying().(*types.Basic))
		*r.addr = in.tt.Extract(a[1].(*Term), w-1, 0)
		return nil
	}
	I["(reflect.Value).OverflowInt"] = func(in *Interp, fr *frame, a []Val) Val {
		r := rv(a[0])
		in.mustKind(r, "OverflowInt", kInt, kInt8, kInt16, kInt32, kInt64)
		w := in.intWidth(r.t.Underlying().(*types.Basic))
		x := a[1].(*Term)
		if w >= 64 {
			return in.tt.False
		}
		return in.tt.Not(in.tt.Eq(in.tt.SExt(in.tt.Extract(x, w-1, 0), 64), x))
	}
	I["(reflect.Value).OverflowUint"] = func(in *Interp, fr *frame, a []Val) Val {
		r := rv(a[0])
		in.mustKind(r, "OverflowUint", kUint, kUint8, kUint16, kUint32, kUint64, kUintptr)
		w := in.intWidth(r.t.Underlying().(*types.Basic))
		x := a[1].(*Term)
		if w >= 64 {
			return in.tt.False
		}
		return in.tt.Not(in.tt.Eq(in.tt.ZExt(in.tt.Extract(x, w-1, 0), 64), x))
	}
	I["(reflect.Value).SetFloat"] = func(in *Interp, fr *frame, a []Val) Val {
		r := rv(a[0])
		in.mustSettable(r, "SetFloat")
		in.mustKind(r, "SetFloat", kFloat32, kFloat64)
		f := a[1].(FloatV)
		if kindOf(r.t) == kFloat32 {
			*r.addr = FloatV{float64(float32(f.f)), 32, f.unk}
		} else {
			*r.addr = FloatV{f.f, 64, f.unk}
		}
		return nil
	}
	I["(reflect.Value).String"] = func(in *Interp, fr *frame, a []Val) Val {
		r := rv(a[0])
		if r.t == nil {
			return ConcStr("<invalid Value>")
		}
		if kindOf(r.t) == kString {
			return r.load().(Str)
		}
		return ConcStr("<" + r.t.String() + " Value>")
	}
	I["(reflect.Value).Bool"] = func(in *Interp, fr *frame, a []Val) Val {
		r := rv(a[0])
		in.mustKind(r, "Bool", kBool)
		return r.load()
	}
	I["(reflect.Value).Int"] = func(in *Interp, fr *frame, a []Val) Val {
		r := rv(a[0])
		in.mustKind(r, "Int", kInt, kInt8, kInt16, kInt32, kInt64)
		return in.tt.SExt(r.load().(*Term), 64)
	}
	I["(reflect.Value).Uint"] = func(in *Interp, fr *frame, a []Val) Val {
		r := rv(a[0])
		in.mustKind(r, "Uint", kUint, kUint8, kUint16, kUint32, kUint64, kUintptr)
		return in.tt.ZExt(r.load().(*Term), 64)
	}
	I["(reflect.Value).Float"] = func(in *Interp, fr *frame, a []Val) Val {
		r := rv(a[0])
		in.mustKind(r, "Float", kFloat32, kFloat64)
		return FloatV{r.load().(FloatV).f, 64, r.load().(FloatV).unk}
	}
	I["(reflect.Value).Len"] = func(in *Interp, fr *frame, a []Val) Val {
		r := rv(a[0])
		switch x := r.load().(type) {
		case Slice:
			return in.intv(len(x.a))
		case Str:
			return in.intv(len(x.s))
		case Array:
			return in.intv(len(x))
		case *Map:
			if x == nil {
				return in.intv(0)
			}
			return in.intv(x.n)
		}
		panic(in.reflectPanic("call of reflect.Value.Len on " + fmt.Sprint(r.t) + " Value"))
	}
	I["(reflect.Value).Index"] = func(in *Interp, fr *frame, a []Val) Val {
		r := rv(a[0])
		i := in.concInt(a[1])
		switch x := r.load().(type) {
		case Slice:
			if i < 0 || i >= len(x.a) {
				panic(in.reflectPanic("slice index out of range"))
			}
			return RValue{t: r.t.Underlying().(*types.Slice).Elem(), addr: &x.a[i], ro: r.ro || r.roE}
		case Array:
			if i < 0 || i >= len(x) {
				panic(in.reflectPanic("array index out of range"))
			}
			if r.addr != nil {
				return RValue{t: r.t.Underlying().(*types.Array).Elem(), addr: &x[i], ro: r.ro || r.roE}
			}
			return RValue{t: r.t.Underlying().(*types.Array).Elem(), v: x[i], ro: r.ro || r.roE}
		case Str:
			if i < 0 || i >= len(x.s) {
				panic(in.reflectPanic("string index out of range"))
			}
			return RValue{t: types.Typ[types.Uint8], v: in.strByte(x, i)}
		}
		panic(in.reflectPanic("call of reflect.Value.Index on " + fmt.Sprint(r.t) + " Value"))
	}
	I["(reflect.Value).Field"] = func(in *Interp, fr *frame, a []Val) Val {
		r := rv(a[0])
		in.mustKind(r, "Field", kStruct)
		st := r.t.Underlying().(*types.Struct)
		i := in.concInt(a[1])
		if i < 0 || i >= st.NumFields() {
			panic(in.reflectPanic("Field index out of range"))
		}
		f := st.Field(i)
		ro, roE := r.ro, false
		if !f.Exported() {
			if f.Embedded() {
				roE = true
			} else {
				ro = true
			}
		}
		if r.addr != nil {
			s := (*r.addr).(Struct)
			return RValue{t: f.Type(), addr: &s[i], ro: ro, roE: roE}
		}
		return RValue{t: f.Type(), v: r.v.(Struct)[i], ro: ro, roE: roE}
	}
	I["(reflect.Value).NumField"] = func(in *Interp, fr *frame, a []Val) Val {
		r := rv(a[0])
		in.mustKind(r, "NumField", kStruct)
		return in.intv(r.t.Underlying().(*types.Struct).NumFields())
	}
	I["(reflect.Value).MapKeys"] = func(in *Interp, fr *frame, a []Val) Val {
		r := rv(a[0])
		in.mustKind(r, "MapKeys", kMap)
		m := r.load().(*Map)
		kt := r.t.Underlying().(*types.Map).Key()
		var keys []Val
		if m != nil {
			for _, e := range m.entries {
				if !e.deleted {
					keys = append(keys, e.k)
				}
			}
		}
		out := []Val{}
		for len(keys) > 0 {
			pick := 0
			if in.mapNondet && len(keys) > 1 {
				pick = in.Choose(len(keys))
			}
			out = append(out, RValue{t: kt, v: keys[pick]})
			keys = append(keys[:pick:pick], keys[pick+1:]...)
		}
		return Slice{out}
	}
	I["(reflect.Value).MapIndex"] = func(in *Interp, fr *frame, a []Val) Val {
		r := rv(a[0])
		in.mustKind(r, "MapIndex", kMap)
		m := r.load().(*Map)
		i := in.mapFind(m, rv(a[1]).load())
		if i < 0 {
			return RValue{}
		}
		return RValue{t: r.t.Underlying().(*types.Map).Elem(), v: copyVal(m.entries[i].v)}
	}
	I["(reflect.Value).SetMapIndex"] = func(in *Interp, fr *frame, a []Val) Val {
		r := rv(a[0])
		in.mustKind(r, "SetMapIndex", kMap)
		if r.ro || r.roE {
			panic(in.reflectPanic("SetMapIndex using value obtained using unexported field"))
		}
		m := r.load().(*Map)
		k, v := rv(a[1]), rv(a[2])
		mt := r.t.Underlying().(*types.Map)
		if k.t == nil || !types.AssignableTo(k.t, mt.Key()) {
			panic(in.reflectPanic("SetMapIndex: key type mismatch"))
		}
		if v.t == nil {
			if m != nil {
				in.mapDelete(m, k.load())
			}
			return nil
		}
		if !types.AssignableTo(v.t, mt.Elem()) {
			panic(in.reflectPanic("SetMapIndex: value type mismatch"))
		}
		if m == nil {
			panic(goPanic{RuntimePanic{"assignment to entry in nil map"}})
		}
		in.mapSet(m, k.load(), copyVal(v.load()))
		return nil
	}
	I["(reflect.Value).Call"] = func(in *Interp, fr *frame, a []Val) Val {
		r := rv(a[0])
		in.mustKind(r, "Call", kFunc)
		fn := r.load()
		if _, isNil := fn.(FuncNil); isNil {
			panic(in.reflectPanic("call of nil function"))
		}
		sig := r.t.Underlying().(*types.Signature)
		var args []Val
		if s, ok := a[1].(Slice); ok {
			for _, x := range s.a {
				args = append(args, copyVal(rv(x).load()))
			}
		}
		if len(args) != sig.Params().Len() {
			panic(in.reflectPanic("Call with wrong number of input arguments"))
		}
		res := in.Call(fr, fn, args)
		out := []Val{}
		switch sig.Results().Len() {
		case 0:
		case 1:
			out = append(out, RValue{t: sig.Results().At(0).Type(), v: res})
		default:
			for i, x := range res.(Tuple) {
				out = append(out, RValue{t: sig.Results().At(i).Type(), v: x})
			}
		}
		return Slice{out}
	}
	I["(reflect.Kind).String"] = func(in *Interp, fr *frame, a []Val) Val {
		names := []string{"invalid", "bool", "int", "int8", "int16", "int32", "int64", "uint", "uint8", "uint16", "uint32", "uint64", "uintptr", "float32", "float64", "complex64", "complex128", "array", "chan", "func", "interface", "map", "ptr", "slice", "string", "struct", "unsafe.Pointer"}
		k := in.concInt(a[0])
		if k >= 0 && k < len(names) {
			return ConcStr(names[k])
		}
		return ConcStr("kind?")
	}
	I["(reflect.StructTag).Get"] = nil
	delete(I, "(reflect.StructTag).Get")
}
