package sx

// intrinsics.go: environment models — harness nondet API (type V), os, fmt,
// internal/bytealg, strings.Builder and a few others. Every intrinsic used
// on a run is reported in the evidence under "stubs".

import (
	"fmt"
	"go/types"
	"math"
	"sort"
	"strconv"
	"strings"
	"time"
)

const flagsPkg = "github.com/jessevdk/go-flags"

type intrinsic = func(in *Interp, fr *frame, args []Val) Val

func (in *Interp) newVar(prefix string, w int) *Term {
	in.varCounter++
	return in.tt.Var(fmt.Sprintf("%s%d", prefix, in.varCounter), w)
}

func concStr(v Val) string {
	s := v.(Str).norm()
	if s.sym != nil {
		panic(pathEnd{endUnsupported, "symbolic string where a concrete one is required: " + s.String()})
	}
	return s.s
}

func (in *Interp) boolv(b bool) *Term { return in.tt.Bool(b) }
func (in *Interp) intv(i int) *Term   { return in.tt.BV(64, uint64(i)) }

func (in *Interp) bytesToSlice(s Str) Slice {
	a := make([]Val, len(s.s))
	for i := range a {
		a[i] = in.strByte(s, i)
	}
	return Slice{a}
}

func (in *Interp) sliceToStr(s Slice) Str {
	bs := make([]*Term, len(s.a))
	for i, c := range s.a {
		bs[i] = c.(*Term)
	}
	return in.strFromBytes(bs)
}

func (in *Interp) strSliceVal(ss []Str) Slice {
	a := make([]Val, len(ss))
	for i, s := range ss {
		a[i] = s
	}
	return Slice{a}
}

// containsTerm builds the Bool term "sub occurs in s" without forking.
func (in *Interp) containsTerm(s, sub Str) *Term {
	tt := in.tt
	if len(sub.s) == 0 {
		return tt.True
	}
	if s.sym == nil && sub.sym == nil {
		return tt.Bool(strings.Contains(s.s, sub.s))
	}
	r := tt.False
	for i := 0; i+len(sub.s) <= len(s.s); i++ {
		r = tt.Or(r, in.strEq(strSlice(s, i, i+len(sub.s)), sub))
	}
	return r
}

func registerIntrinsics(in *Interp) {
	I := in.intrinsics
	V := "(*" + flagsPkg + ".V)."

	I[V+"Shape"] = func(in *Interp, fr *frame, a []Val) Val {
		name := concStr(a[1])
		v, ok := in.shape[name]
		if !ok {
			panic(pathEnd{endUnsupported, "shape parameter not in plan: " + name})
		}
		return in.intv(v)
	}
	I[V+"String"] = func(in *Interp, fr *frame, a []Val) Val {
		n := in.concInt(a[1])
		bs := make([]*Term, n)
		in.varCounter++
		id := in.varCounter
		for i := range bs {
			bs[i] = in.tt.Var(fmt.Sprintf("s%d_%d", id, i), 8)
		}
		in.nondet = append(in.nondet, NondetRec{Kind: "string", Terms: bs})
		return in.strFromBytes(bs)
	}
	I[V+"Byte"] = func(in *Interp, fr *frame, a []Val) Val {
		t := in.newVar("b", 8)
		in.nondet = append(in.nondet, NondetRec{Kind: "byte", Terms: []*Term{t}, W: 8})
		return t
	}
	I[V+"Bool"] = func(in *Interp, fr *frame, a []Val) Val {
		t := in.newVar("p", 0)
		in.nondet = append(in.nondet, NondetRec{Kind: "bool", Terms: []*Term{t}})
		return t
	}
	I[V+"Int"] = func(in *Interp, fr *frame, a []Val) Val {
		lo, hi := a[1].(*Term), a[2].(*Term)
		t := in.newVar("i", 64)
		in.nondet = append(in.nondet, NondetRec{Kind: "int", Terms: []*Term{t}, W: 64})
		in.Assume(in.tt.And(in.tt.Sle(lo, t), in.tt.Sle(t, hi)))
		return t
	}
	I[V+"Choice"] = func(in *Interp, fr *frame, a []Val) Val {
		n := in.concInt(a[1])
		c := in.Choose(n)
		in.nondet = append(in.nondet, NondetRec{Kind: "choice", Val: c})
		return in.intv(c)
	}
	I[V+"Assume"] = func(in *Interp, fr *frame, a []Val) Val {
		in.Assume(a[1].(*Term))
		return nil
	}
	I[V+"Assert"] = func(in *Interp, fr *frame, a []Val) Val {
		in.Assert(a[1].(*Term), concStr(a[2]))
		return nil
	}
	I[V+"Reach"] = func(in *Interp, fr *frame, a []Val) Val {
		in.reachPath = append(in.reachPath, concStr(a[1]))
		return nil
	}
	I[V+"ObserveStr"] = func(in *Interp, fr *frame, a []Val) Val {
		in.obs = append(in.obs, obsRec{concStr(a[1]), a[2]})
		return nil
	}
	I[V+"ObserveInt"] = I[V+"ObserveStr"]
	I[V+"ObserveBool"] = I[V+"ObserveStr"]
	I[V+"ObserveStrs"] = I[V+"ObserveStr"]
	I[V+"Setenv"] = func(in *Interp, fr *frame, a []Val) Val {
		val := a[2].(Str).norm()
		// contract of the environment: a value cannot hold a NUL byte
		for i := 0; i < val.Len(); i++ {
			in.Assume(in.tt.Not(in.tt.Eq(in.strByte(val, i), in.tt.BV(8, 0))))
		}
		in.env[concStr(a[1])] = val
		return nil
	}
	I[V+"Stdout"] = func(in *Interp, fr *frame, a []Val) Val {
		r := Str{}
		for _, s := range in.stdout {
			r = strConcat(r, s)
		}
		return r
	}
	I[V+"Stderr"] = func(in *Interp, fr *frame, a []Val) Val {
		r := Str{}
		for _, s := range in.stderr {
			r = strConcat(r, s)
		}
		return r
	}
	I[V+"TermWidth"] = func(in *Interp, fr *frame, a []Val) Val {
		in.termWidth = in.concInt(a[1])
		return nil
	}
	I[V+"MapOrder"] = func(in *Interp, fr *frame, a []Val) Val {
		in.mapNondet = in.Decide(a[1].(*Term))
		return nil
	}
	I[V+"Known"] = func(in *Interp, fr *frame, a []Val) Val {
		name := concStr(a[1])
		in.kfHits[name]++
		return in.boolv(in.knownFindings[name])
	}
	I[V+"Symbolic"] = func(in *Interp, fr *frame, a []Val) Val { return in.tt.True }
	// non-forking boolean helpers
	I[V+"And"] = func(in *Interp, fr *frame, a []Val) Val { return in.tt.And(a[1].(*Term), a[2].(*Term)) }
	I[V+"Or"] = func(in *Interp, fr *frame, a []Val) Val { return in.tt.Or(a[1].(*Term), a[2].(*Term)) }
	I[V+"Not"] = func(in *Interp, fr *frame, a []Val) Val { return in.tt.Not(a[1].(*Term)) }
	I[V+"Implies"] = func(in *Interp, fr *frame, a []Val) Val { return in.tt.Implies(a[1].(*Term), a[2].(*Term)) }
	I[V+"Ite"] = func(in *Interp, fr *frame, a []Val) Val {
		return in.tt.Ite(a[1].(*Term), a[2].(*Term), a[3].(*Term))
	}
	I[V+"EqStr"] = func(in *Interp, fr *frame, a []Val) Val { return in.strEq(a[1].(Str), a[2].(Str)) }
	I[V+"EqStrs"] = func(in *Interp, fr *frame, a []Val) Val {
		x, y := a[1].(Slice), a[2].(Slice)
		if len(x.a) != len(y.a) {
			return in.tt.False
		}
		r := in.tt.True
		for i := range x.a {
			r = in.tt.And(r, in.strEq(x.a[i].(Str), y.a[i].(Str)))
		}
		return r
	}
	I[V+"Contains"] = func(in *Interp, fr *frame, a []Val) Val { return in.containsTerm(a[1].(Str), a[2].(Str)) }
	I[V+"HasPrefix"] = func(in *Interp, fr *frame, a []Val) Val {
		s, p := a[1].(Str), a[2].(Str)
		if len(p.s) > len(s.s) {
			return in.tt.False
		}
		return in.strEq(strSlice(s, 0, len(p.s)), p)
	}
	I[V+"ExpectExit"] = func(in *Interp, fr *frame, a []Val) Val { in.exitExpected = true; return nil }

	// vTagged(v, shape, tags): a fresh struct whose tag texts are served by the
	// reflect model from the (possibly symbolic) strings given
	I[flagsPkg+".vTagged"] = func(in *Interp, fr *frame, a []Val) Val {
		shape := concStr(a[1])
		tags := a[2].(Slice).a
		names := map[string]string{"bs": "vTBS", "fn": "vTFN", "s": "vTS", "b": "vTB", "ss": "vTSS", "g": "vTG", "gg": "vTGG", "c": "vTC", "p": "vTP"}
		tn, ok := names[shape]
		if !ok {
			panic(in.unsupported("vTagged shape " + shape))
		}
		obj := in.mainPkg.Pkg.Scope().Lookup(tn)
		t := obj.Type()
		st := t.Underlying().(*types.Struct)
		set := func(st *types.Struct, i int, tag Val) { in.tagOverride[tagKey{st, i}] = tag.(Str) }
		inner := func(i int) *types.Struct { return st.Field(i).Type().Underlying().(*types.Struct) }
		switch shape {
		case "s", "b", "bs", "fn", "g", "c":
			set(st, 0, tags[0])
		case "ss":
			set(st, 0, tags[0])
			set(st, 1, tags[1])
		case "gg":
			set(st, 0, tags[0])
			set(inner(0), 0, tags[1])
			set(st, 1, tags[2])
			set(inner(1), 0, tags[3])
		case "p":
			set(st, 0, tags[0])
			set(inner(0), 0, tags[1])
		}
		p := new(Val)
		*p = in.zero(t)
		return Iface{t: types.NewPointer(t), v: p}
	}

	// ---- os ----
	I["os.Getenv"] = func(in *Interp, fr *frame, a []Val) Val {
		if v, ok := in.env[concStr(a[0])]; ok {
			return v
		}
		return Str{}
	}
	I["os.LookupEnv"] = func(in *Interp, fr *frame, a []Val) Val {
		v, ok := in.env[concStr(a[0])]
		return Tuple{v2s(v, ok), in.boolv(ok)}
	}
	I["os.Setenv"] = func(in *Interp, fr *frame, a []Val) Val {
		in.env[concStr(a[0])] = a[1].(Str)
		return Iface{}
	}
	I["os.Unsetenv"] = func(in *Interp, fr *frame, a []Val) Val {
		delete(in.env, concStr(a[0]))
		return Iface{}
	}
	// the model environment holds exactly the variables the harness set
	I["os.Environ"] = func(in *Interp, fr *frame, a []Val) Val {
		keys := make([]string, 0, len(in.env))
		for k := range in.env {
			keys = append(keys, k)
		}
		sort.Strings(keys)
		out := make([]Str, 0, len(keys))
		for _, k := range keys {
			out = append(out, strConcat(ConcStr(k+"="), in.env[k]))
		}
		return in.strSliceVal(out)
	}
	I["os.Exit"] = func(in *Interp, fr *frame, a []Val) Val {
		panic(pathEnd{endExit, "os.Exit"})
	}
	I["(*os.File).Write"] = func(in *Interp, fr *frame, a []Val) Val {
		in.fileWrite(a[0], in.sliceToStr(a[1].(Slice)))
		return Tuple{in.intv(len(a[1].(Slice).a)), Iface{}}
	}
	I["(*os.File).WriteString"] = func(in *Interp, fr *frame, a []Val) Val {
		in.fileWrite(a[0], a[1].(Str))
		return Tuple{in.intv(a[1].(Str).Len()), Iface{}}
	}
	I[flagsPkg+".getTerminalColumns"] = func(in *Interp, fr *frame, a []Val) Val {
		if in.termWidth < 0 {
			return in.intv(80)
		}
		return in.intv(in.termWidth)
	}

	// ---- fmt ----
	I["fmt.Sprintf"] = func(in *Interp, fr *frame, a []Val) Val {
		return in.sprintfAny(fr, a[0], a[1].(Slice).a)
	}
	I["fmt.Errorf"] = func(in *Interp, fr *frame, a []Val) Val {
		s := in.sprintfAny(fr, a[0], a[1].(Slice).a)
		return in.newError(fr, s)
	}
	I["fmt.Sprint"] = func(in *Interp, fr *frame, a []Val) Val { return in.sprint(fr, a[0].(Slice).a, false) }
	I["fmt.Sprintln"] = func(in *Interp, fr *frame, a []Val) Val { return in.sprint(fr, a[0].(Slice).a, true) }
	I["fmt.Fprintf"] = func(in *Interp, fr *frame, a []Val) Val {
		s := in.sprintfAny(fr, a[1], a[2].(Slice).a)
		return in.writeTo(fr, a[0].(Iface), s)
	}
	I["fmt.Fprint"] = func(in *Interp, fr *frame, a []Val) Val {
		return in.writeTo(fr, a[0].(Iface), in.sprint(fr, a[1].(Slice).a, false))
	}
	I["fmt.Fprintln"] = func(in *Interp, fr *frame, a []Val) Val {
		return in.writeTo(fr, a[0].(Iface), in.sprint(fr, a[1].(Slice).a, true))
	}
	I["fmt.Printf"] = func(in *Interp, fr *frame, a []Val) Val {
		s := in.sprintfAny(fr, a[0], a[1].(Slice).a)
		in.stdout = append(in.stdout, s)
		return Tuple{in.intv(s.Len()), Iface{}}
	}
	I["fmt.Println"] = func(in *Interp, fr *frame, a []Val) Val {
		s := in.sprint(fr, a[0].(Slice).a, true)
		in.stdout = append(in.stdout, s)
		return Tuple{in.intv(s.Len()), Iface{}}
	}
	I["fmt.Print"] = func(in *Interp, fr *frame, a []Val) Val {
		s := in.sprint(fr, a[0].(Slice).a, false)
		in.stdout = append(in.stdout, s)
		return Tuple{in.intv(s.Len()), Iface{}}
	}

	// ---- internal/bytealg (assembly leaves): engine models that fork ----
	I["internal/bytealg.IndexByteString"] = func(in *Interp, fr *frame, a []Val) Val {
		s, c := a[0].(Str), a[1].(*Term)
		for i := 0; i < len(s.s); i++ {
			if in.Decide(in.tt.Eq(in.strByte(s, i), c)) {
				return in.intv(i)
			}
		}
		return in.intv(-1)
	}
	I["internal/bytealg.IndexByte"] = func(in *Interp, fr *frame, a []Val) Val {
		s, c := a[0].(Slice), a[1].(*Term)
		for i := 0; i < len(s.a); i++ {
			if in.Decide(in.tt.Eq(s.a[i].(*Term), c)) {
				return in.intv(i)
			}
		}
		return in.intv(-1)
	}
	I["internal/bytealg.CountString"] = func(in *Interp, fr *frame, a []Val) Val {
		s, c := a[0].(Str), a[1].(*Term)
		n := 0
		for i := 0; i < len(s.s); i++ {
			if in.Decide(in.tt.Eq(in.strByte(s, i), c)) {
				n++
			}
		}
		return in.intv(n)
	}
	I["internal/bytealg.Count"] = func(in *Interp, fr *frame, a []Val) Val {
		s, c := a[0].(Slice), a[1].(*Term)
		n := 0
		for i := 0; i < len(s.a); i++ {
			if in.Decide(in.tt.Eq(s.a[i].(*Term), c)) {
				n++
			}
		}
		return in.intv(n)
	}
	I["internal/bytealg.IndexString"] = func(in *Interp, fr *frame, a []Val) Val {
		s, sub := a[0].(Str), a[1].(Str)
		for i := 0; i+len(sub.s) <= len(s.s); i++ {
			if in.Decide(in.strEq(strSlice(s, i, i+len(sub.s)), sub)) {
				return in.intv(i)
			}
		}
		return in.intv(-1)
	}
	I["internal/bytealg.Index"] = func(in *Interp, fr *frame, a []Val) Val {
		s, sub := in.sliceToStr(a[0].(Slice)), in.sliceToStr(a[1].(Slice))
		for i := 0; i+len(sub.s) <= len(s.s); i++ {
			if in.Decide(in.strEq(strSlice(s, i, i+len(sub.s)), sub)) {
				return in.intv(i)
			}
		}
		return in.intv(-1)
	}
	I["internal/bytealg.Equal"] = func(in *Interp, fr *frame, a []Val) Val {
		return in.strEq(in.sliceToStr(a[0].(Slice)), in.sliceToStr(a[1].(Slice)))
	}
	I["internal/bytealg.MakeNoZero"] = func(in *Interp, fr *frame, a []Val) Val {
		n := in.concInt(a[0])
		s := make([]Val, n)
		z := in.tt.BV(8, 0)
		for i := range s {
			s[i] = z
		}
		return Slice{s}
	}
	I["internal/stringslite.Index"] = func(in *Interp, fr *frame, a []Val) Val {
		return I["internal/bytealg.IndexString"](in, fr, a)
	}
	I["strings.Index"] = I["internal/bytealg.IndexString"]
	I["internal/stringslite.IndexByte"] = I["internal/bytealg.IndexByteString"]
	I["strings.IndexByte"] = I["internal/bytealg.IndexByteString"]
	I["internal/stringslite.HasPrefix"] = func(in *Interp, fr *frame, a []Val) Val {
		s, p := a[0].(Str), a[1].(Str)
		if len(p.s) > len(s.s) {
			return in.tt.False
		}
		return in.strEq(strSlice(s, 0, len(p.s)), p)
	}
	I["strings.HasPrefix"] = I["internal/stringslite.HasPrefix"]
	I["internal/stringslite.HasSuffix"] = func(in *Interp, fr *frame, a []Val) Val {
		s, p := a[0].(Str), a[1].(Str)
		if len(p.s) > len(s.s) {
			return in.tt.False
		}
		return in.strEq(strSlice(s, len(s.s)-len(p.s), len(s.s)), p)
	}
	I["strings.HasSuffix"] = I["internal/stringslite.HasSuffix"]
	I["strings.Repeat"] = func(in *Interp, fr *frame, a []Val) Val {
		s := a[0].(Str)
		n := in.concInt(a[1])
		if n < 0 {
			panic(goPanic{Iface{t: types.Typ[types.String], v: ConcStr("strings: negative Repeat count")}})
		}
		if n*len(s.s) > 1<<20 {
			panic(pathEnd{endBudget, "strings.Repeat result too large"})
		}
		if s.sym == nil {
			return ConcStr(strings.Repeat(s.s, n))
		}
		r := Str{}
		for i := 0; i < n; i++ {
			r = strConcat(r, s)
		}
		return r
	}

	// ---- strings.Builder (uses unsafe) ----
	I["(*strings.Builder).copyCheck"] = func(in *Interp, fr *frame, a []Val) Val { return nil }
	I["(*strings.Builder).String"] = func(in *Interp, fr *frame, a []Val) Val {
		b := (*in.deref(a[0])).(Struct)
		return in.sliceToStr(b[1].(Slice))
	}
	I["unsafe.String"] = func(in *Interp, fr *frame, a []Val) Val {
		panic(in.unsupported("unsafe.String"))
	}
	I["internal/stringslite.Clone"] = func(in *Interp, fr *frame, a []Val) Val { return a[0] }
	I["strings.Clone"] = I["internal/stringslite.Clone"]
	I["internal/abi.NoEscape"] = func(in *Interp, fr *frame, a []Val) Val { return a[0] }

	// ---- errors ----
	I["errors.Is"] = nil
	delete(I, "errors.Is")

	// ---- time ----
	// time.Time is modelled by its zero struct with the Unix seconds kept in
	// the ext field; Now() is an arbitrary instant (harnesses fix
	// SOURCE_DATE_EPOCH, so its value is never observed)
	timeVal := func(in *Interp, sec *Term) Val {
		t := in.prog.ImportedPackage("time").Pkg.Scope().Lookup("Time").Type()
		z := in.zero(t).(Struct)
		z[1] = sec
		return z
	}
	I["time.Now"] = func(in *Interp, fr *frame, a []Val) Val {
		return timeVal(in, in.tt.BV(64, 0))
	}
	I["time.Unix"] = func(in *Interp, fr *frame, a []Val) Val {
		return timeVal(in, a[0].(*Term))
	}
	I["(time.Time).Format"] = func(in *Interp, fr *frame, a []Val) Val {
		sec := int64(in.Concretize(a[0].(Struct)[1].(*Term)))
		return ConcStr(time.Unix(sec, 0).Format(concStr(a[1])))
	}
	I["time.ParseDuration"] = func(in *Interp, fr *frame, a []Val) Val {
		s := a[0].(Str).norm()
		if s.sym != nil {
			return notHandled // the real parser is interpreted
		}
		d, err := time.ParseDuration(s.s)
		if err != nil {
			return Tuple{in.tt.BV(64, 0), in.newError(fr, ConcStr(err.Error()))}
		}
		return Tuple{in.tt.BV(64, uint64(d)), Iface{}}
	}
	// time.quote (error text only) forks per byte; the text is inserted unescaped
	I["time.quote"] = func(in *Interp, fr *frame, a []Val) Val {
		s := a[0].(Str).norm()
		if s.sym == nil {
			return notHandled
		}
		return strConcat(strConcat(ConcStr("\""), s), ConcStr("\""))
	}
	I["(time.Duration).String"] = func(in *Interp, fr *frame, a []Val) Val {
		d := a[0].(*Term)
		return ConcStr(time.Duration(int64(in.Concretize(d))).String())
	}

	// (*strconv.NumError).Error quotes the offending text with strconv.Quote,
	// which forks ~20 ways per symbolic byte. Formatting of the standard
	// library's error text is not the subject of any property: the text is
	// inserted unescaped (stub, listed in the evidence).
	I["(*strconv.NumError).Error"] = func(in *Interp, fr *frame, a []Val) Val {
		e := (*in.deref(a[0])).(Struct)
		fn, num, inner := e[0].(Str), e[1].(Str), e[2].(Iface)
		num = num.norm()
		var msg Str
		if inner.t != nil {
			msg = in.invokeMethod(fr, inner, "Error", nil).(Str)
		}
		if num.sym == nil {
			return ConcStr("strconv." + fn.s + ": parsing " + strconv.Quote(num.s) + ": " + msg.norm().s)
		}
		r := ConcStr("strconv." + fn.s + ": parsing \"")
		r = strConcat(r, num)
		r = strConcat(r, ConcStr("\": "))
		return strConcat(r, msg)
	}

	// ---- strconv float (native when concrete) ----
	I["strconv.ParseFloat"] = func(in *Interp, fr *frame, a []Val) Val {
		s := a[0].(Str).norm()
		bits := in.concInt(a[1])
		if s.sym != nil {
			return in.parseFloatSym(fr, s, bits)
		}
		f, err := strconv.ParseFloat(s.s, bits)
		if err != nil {
			return Tuple{FloatV{f: f, bits: 64}, in.newError(fr, ConcStr(err.Error()))}
		}
		return Tuple{FloatV{f: f, bits: 64}, Iface{}}
	}
	I["strconv.FormatFloat"] = func(in *Interp, fr *frame, a []Val) Val {
		f := a[0].(FloatV)
		fm := byte(in.concInt(a[1]))
		prec := in.concInt(a[2])
		bits := in.concInt(a[3])
		return ConcStr(strconv.FormatFloat(f.f, fm, prec, bits))
	}
	I["math.Float64bits"] = func(in *Interp, fr *frame, a []Val) Val {
		f := a[0].(FloatV)
		if f.unk {
			panic(in.unsupported("bits of an untracked float"))
		}
		return in.tt.BV(64, math.Float64bits(f.f))
	}
	I["math.Float64frombits"] = func(in *Interp, fr *frame, a []Val) Val {
		return FloatV{f: math.Float64frombits(in.Concretize(a[0].(*Term))), bits: 64}
	}
	I["math.Float32bits"] = func(in *Interp, fr *frame, a []Val) Val {
		f := a[0].(FloatV)
		if f.unk {
			panic(in.unsupported("bits of an untracked float"))
		}
		return in.tt.BV(32, uint64(math.Float32bits(float32(f.f))))
	}
	I["math.Float32frombits"] = func(in *Interp, fr *frame, a []Val) Val {
		return FloatV{f: float64(math.Float32frombits(uint32(in.Concretize(a[0].(*Term))))), bits: 32}
	}
	I["sync/atomic.CompareAndSwapInt32"] = func(in *Interp, fr *frame, a []Val) Val { return in.tt.True }
	I["(*sync.Mutex).Lock"] = func(in *Interp, fr *frame, a []Val) Val { return nil }
	I["(*sync.Mutex).Unlock"] = func(in *Interp, fr *frame, a []Val) Val { return nil }
	I["(*sync.Once).Do"] = func(in *Interp, fr *frame, a []Val) Val { panic(in.unsupported("sync.Once")) }
}

// parseFloatSym decides the ACCEPTANCE of a symbolic text by strconv.ParseFloat
// by interpreting the real scanner functions of strconv (special, readFloat)
// on the symbolic bytes. The numeric value is not tracked (FloatV.unk): using
// it is unsupported. Range errors cannot be decided here and are excluded by
// requiring a small concrete decimal exponent.
func (in *Interp) parseFloatSym(fr *frame, s Str, bits int) Val {
	sp := in.prog.ImportedPackage("strconv")
	mkSyntax := func() Val {
		// syntaxError returns *NumError; wrap it as the error interface value
		e := in.callFunction(fr, sp.Func("syntaxError"), []Val{ConcStr("ParseFloat"), s}, nil)
		t := types.NewPointer(sp.Pkg.Scope().Lookup("NumError").Type())
		return Tuple{FloatV{0, 64, false}, Iface{t: t, v: e}}
	}
	r := in.callFunction(fr, sp.Func("special"), []Val{s}, nil).(Tuple)
	if in.Decide(r[2].(*Term)) {
		if in.concInt(r[1]) != s.Len() {
			return mkSyntax()
		}
		return Tuple{r[0], Iface{}}
	}
	rf := in.callFunction(fr, sp.Func("readFloat"), []Val{s}, nil).(Tuple)
	// mantissa, exp, neg, trunc, hex, i, ok
	if !in.Decide(rf[6].(*Term)) || in.concInt(rf[5]) != s.Len() {
		return mkSyntax()
	}
	if in.Decide(rf[4].(*Term)) {
		panic(in.unsupported("strconv.ParseFloat: symbolic hexadecimal float text"))
	}
	exp := rf[1].(*Term)
	small := in.tt.And(in.tt.Sle(in.tt.BV(64, uint64(^uint64(29))), exp), in.tt.Sle(exp, in.tt.BV(64, 30)))
	if !in.Decide(small) {
		panic(in.unsupported("strconv.ParseFloat: symbolic text with a large exponent (range errors are not modelled)"))
	}
	return Tuple{FloatV{0, 64, true}, Iface{}}
}

func v2s(v Str, ok bool) Str {
	if ok {
		return v
	}
	return Str{}
}

// newError builds an error value holding message s, using errors.errorString
// from the interpreted errors package.
func (in *Interp) newError(fr *frame, s Str) Val {
	fn := in.prog.ImportedPackage("errors").Func("New")
	return in.callFunction(fr, fn, []Val{s}, nil)
}

func (in *Interp) fileWrite(f Val, s Str) {
	p, _ := f.(*Val)
	switch {
	case p != nil && p == in.osStdout:
		in.stdout = append(in.stdout, s)
	case p != nil && p == in.osStderr:
		in.stderr = append(in.stderr, s)
	default:
		panic(in.unsupported("write to an *os.File other than Stdout/Stderr"))
	}
}

// writeTo writes s to the io.Writer w by calling its real Write method.
func (in *Interp) writeTo(fr *frame, w Iface, s Str) Val {
	if w.t == nil {
		panic(in.runtimePanic("nil io.Writer"))
	}
	if in.hasMethod(w.t, "WriteString") {
		return in.invokeMethod(fr, w, "WriteString", []Val{s})
	}
	return in.invokeMethod(fr, w, "Write", []Val{in.bytesToSlice(s)})
}

// sprintfAny formats with a concrete or a symbolic format string.
func (in *Interp) sprintfAny(fr *frame, format Val, args []Val) Str {
	if f := format.(Str).norm(); f.sym != nil {
		return in.sprintfSym(fr, f, args)
	}
	return in.sprintf(fr, concStr(format), args)
}

func isStringOperand(a Val) bool {
	itf, ok := a.(Iface)
	if !ok || itf.t == nil {
		return false
	}
	b, ok := itf.t.Underlying().(*types.Basic)
	return ok && b.Info()&types.IsString != 0
}

func (in *Interp) sprint(fr *frame, args []Val, ln bool) Str {
	r := Str{}
	for i, a := range args {
		if i > 0 && ln {
			r = strConcat(r, ConcStr(" "))
		}
		// Sprint adds a space between operands when neither is a string
		if i > 0 && !ln && !isStringOperand(args[i-1]) && !isStringOperand(a) {
			r = strConcat(r, ConcStr(" "))
		}
		r = strConcat(r, in.fmtValue(fr, a, 'v'))
	}
	if ln {
		r = strConcat(r, ConcStr("\n"))
	}
	return r
}

// sprintfSym handles a format string with symbolic bytes (go-flags passes an
// error text as the format in one place). Every byte is decided: an ordinary
// byte is copied, "%%" is a percent sign, '%' followed by one of the verbs
// s v d q x c t consumes the next operand (or prints the MISSING marker),
// '%' followed by a flag/width/index byte, by another verb while operands
// remain, or operands left over at the end are recorded cuts.
func (in *Interp) sprintfSym(fr *frame, f Str, args []Val) Str {
	tt := in.tt
	r := Str{}
	argi := 0
	for i := 0; i < len(f.s); i++ {
		b := in.strByte(f, i)
		if !in.Decide(tt.Eq(b, tt.BV(8, '%'))) {
			r = strConcat(r, in.strFromBytes([]*Term{b}))
			continue
		}
		if i+1 >= len(f.s) {
			r = strConcat(r, ConcStr("%!(NOVERB)"))
			break
		}
		nb := in.strByte(f, i+1)
		i++
		if in.Decide(tt.Eq(nb, tt.BV(8, '%'))) {
			r = strConcat(r, ConcStr("%"))
			continue
		}
		special := tt.Ule(tt.BV(8, 0x80), nb)
		for _, c := range []byte("#0+- 123456789.*[") {
			special = tt.Or(special, tt.Eq(nb, tt.BV(8, uint64(c))))
		}
		if in.Decide(special) {
			panic(pathEnd{endCut, "fmt: '%' followed by a flag/width/index byte inside a symbolic format string"})
		}
		if argi >= len(args) {
			r = strConcat(r, ConcStr("%!"))
			r = strConcat(r, in.strFromBytes([]*Term{nb}))
			r = strConcat(r, ConcStr("(MISSING)"))
			continue
		}
		done := false
		for _, verb := range []byte("svdqxct") {
			if in.Decide(tt.Eq(nb, tt.BV(8, uint64(verb)))) {
				r = strConcat(r, in.fmtValue(fr, args[argi], verb))
				argi++
				done = true
				break
			}
		}
		if !done {
			panic(pathEnd{endCut, "fmt: '%' followed by an unmodelled verb with an operand inside a symbolic format string"})
		}
	}
	if argi < len(args) {
		panic(pathEnd{endCut, "fmt: operands left over after a symbolic format string (EXTRA marker not modelled)"})
	}
	return r
}

func (in *Interp) sprintf(fr *frame, format string, args []Val) Str {
	r := Str{}
	argi := 0
	lit := 0
	for i := 0; i < len(format); i++ {
		if format[i] != '%' {
			continue
		}
		r = strConcat(r, ConcStr(format[lit:i]))
		i++
		if i >= len(format) {
			r = strConcat(r, ConcStr("%!(NOVERB)"))
			lit = i
			break
		}
		verb := format[i]
		lit = i + 1
		if verb == '%' {
			r = strConcat(r, ConcStr("%"))
			continue
		}
		switch verb {
		case 's', 'v', 'd', 'c', 'q', 't', 'x':
		default:
			panic(in.unsupported("fmt verb %" + string(verb) + " in " + strconv.Quote(format)))
		}
		if argi >= len(args) {
			r = strConcat(r, ConcStr("%!"+string(verb)+"(MISSING)"))
			continue
		}
		r = strConcat(r, in.fmtValue(fr, args[argi], verb))
		argi++
	}
	r = strConcat(r, ConcStr(format[lit:]))
	if argi < len(args) {
		panic(in.unsupported("fmt: extra arguments in " + strconv.Quote(format)))
	}
	return r
}

func (in *Interp) fmtValue(fr *frame, a Val, verb byte) Str {
	itf, ok := a.(Iface)
	if !ok {
		panic(fmt.Sprintf("fmt operand %T", a))
	}
	if itf.t == nil {
		if verb == 's' {
			return ConcStr("%!s(<nil>)")
		}
		return ConcStr("<nil>")
	}
	if rt, ok := itf.v.(RType); ok && (verb == 's' || verb == 'v') {
		// a reflect.Type prints its String()
		if rt.t == nil {
			return ConcStr("<nil>")
		}
		return ConcStr(types.TypeString(rt.t, func(p *types.Package) string { return p.Name() }))
	}
	if verb == 's' || verb == 'v' || verb == 'q' {
		// error / Stringer take precedence
		var s Str
		got := false
		if in.implements(itf.t, in.errorType) {
			if p, isPtr := itf.v.(*Val); isPtr && p == nil {
				return ConcStr("<nil>")
			}
			s = in.invokeMethod(fr, itf, "Error", nil).(Str)
			got = true
		} else if in.hasMethod(itf.t, "String") {
			if p, isPtr := itf.v.(*Val); isPtr && p == nil {
				return ConcStr("<nil>")
			}
			res := in.invokeMethod(fr, itf, "String", nil)
			if rs, ok := res.(Str); ok {
				s = rs
				got = true
			}
		}
		if got {
			if verb == 'q' {
				return in.quoteStr(fr, s)
			}
			return s
		}
	}
	switch v := itf.v.(type) {
	case Str:
		switch verb {
		case 's', 'v':
			return v
		case 'q':
			return in.quoteStr(fr, v)
		case 'd':
			return ConcStr("%!d(string=" + v.norm().s + ")")
		}
	case *Term:
		if v.w == 0 {
			if in.Decide(v) {
				return ConcStr("true")
			}
			return ConcStr("false")
		}
		switch verb {
		case 'd', 'v':
			c := in.Concretize(v)
			if isSigned(itf.t) {
				return ConcStr(strconv.FormatInt(sext64(c, v.w), 10))
			}
			return ConcStr(strconv.FormatUint(c, 10))
		case 'x':
			c := in.Concretize(v)
			return ConcStr(strconv.FormatUint(c, 16))
		case 'c':
			r := v
			if isSigned(itf.t) {
				r = in.tt.SExt(v, 64)
			} else {
				r = in.tt.ZExt(v, 64)
			}
			return in.strFromBytes(in.encodeRune(r))
		case 's':
			c := in.Concretize(v)
			return ConcStr(fmt.Sprintf("%%!s(%s=%d)", itf.t.String(), c))
		}
	case FloatV:
		if verb == 'v' {
			return ConcStr(strconv.FormatFloat(v.f, 'g', -1, v.bits))
		}
	case Slice:
		if verb == 'v' || verb == 's' {
			r := ConcStr("[")
			et := itf.t.Underlying().(*types.Slice).Elem()
			for i, e := range v.a {
				if i > 0 {
					r = strConcat(r, ConcStr(" "))
				}
				r = strConcat(r, in.fmtValue(fr, Iface{t: et, v: e}, verb))
			}
			return strConcat(r, ConcStr("]"))
		}
	}
	panic(in.unsupported(fmt.Sprintf("fmt %%%c of %s (%T)", verb, itf.t, itf.v)))
}

func (in *Interp) quoteStr(fr *frame, s Str) Str {
	fn := in.prog.ImportedPackage("strconv").Func("Quote")
	return in.callFunction(fr, fn, []Val{s}, nil).(Str)
}
