// Package sx is gosymx's bounded symbolic executor for Go SSA.
//
// term.go: hash-consed SMT terms (Bool and fixed-width bit-vectors) with
// constant folding, SMT-LIB2 printing and a model evaluator.
package sx

import (
	"fmt"
	"strings"
)

type Op uint8

const (
	OpConst Op = iota
	OpVar
	OpNot
	OpAnd
	OpOr
	OpIte
	OpEq
	OpAdd
	OpSub
	OpMul
	OpUDiv
	OpURem
	OpSDiv
	OpSRem
	OpBAnd
	OpBOr
	OpBXor
	OpShl
	OpLShr
	OpAShr
	OpNeg
	OpBNot
	OpUlt
	OpUle
	OpSlt
	OpSle
	OpZExt    // k = new width
	OpSExt    // k = new width
	OpExtract // k = hi<<8|lo
	OpUF      // uninterpreted function application: name, args in a,b,c
)

var opNames = [...]string{"const", "var", "not", "and", "or", "ite", "=", "bvadd", "bvsub", "bvmul", "bvudiv", "bvurem", "bvsdiv", "bvsrem", "bvand", "bvor", "bvxor", "bvshl", "bvlshr", "bvashr", "bvneg", "bvnot", "bvult", "bvule", "bvslt", "bvsle", "zext", "sext", "extract", "uf"}

// Term is an immutable hash-consed SMT term. w == 0 means sort Bool, otherwise
// (_ BitVec w).
type Term struct {
	op      Op
	w       uint8
	k       uint64
	a, b, c *Term
	name    string
	id      int
	h       uint64 // structural hash: independent of creation order, so that canonical operand order is the same in every worker
	defined bool   // a define-fun / declare-const has been sent to the solver
	fvDone  bool
	fvN     int8  // number of distinct free variables, capped at 2
	fv      *Term // the variable when fvN == 1
	evEpoch uint32
	evVal   uint64
}

type termKey struct {
	op      Op
	w       uint8
	k       uint64
	a, b, c int
	name    string
}

// TermTable owns all terms of one worker.
type TermTable struct {
	tab    map[termKey]*Term
	nextID int
	True   *Term
	False  *Term
	consts [5][]*Term // small constant cache per width class
	Vars   []*Term    // all variables in creation order
}

func NewTermTable() *TermTable {
	tt := &TermTable{tab: make(map[termKey]*Term)}
	tt.True = tt.mk(OpConst, 0, 1, nil, nil, nil, "")
	tt.False = tt.mk(OpConst, 0, 0, nil, nil, nil, "")
	return tt
}

// Size is the number of hash-consed terms.
func (tt *TermTable) Size() int { return len(tt.tab) }

// Trim forgets every composite term (constants and variables stay, so that
// values created once - package initialisation, caches - keep their identity).
// Only called between two paths, when no composite term is live; ids are never
// reused, so a stale composite term that is still referenced somewhere stays a
// valid (merely no longer shared) term.
func (tt *TermTable) Trim() {
	keep := make(map[termKey]*Term, 1<<12)
	for k, t := range tt.tab {
		if t.op == OpConst || t.op == OpVar {
			keep[k] = t
		}
	}
	tt.tab = keep
}

func tid(t *Term) int {
	if t == nil {
		return -1
	}
	return t.id
}

func (tt *TermTable) mk(op Op, w uint8, k uint64, a, b, c *Term, name string) *Term {
	key := termKey{op, w, k, tid(a), tid(b), tid(c), name}
	if t, ok := tt.tab[key]; ok {
		return t
	}
	t := &Term{op: op, w: w, k: k, a: a, b: b, c: c, name: name, id: tt.nextID}
	h := uint64(op)*0x9E3779B97F4A7C15 ^ uint64(w)*0xC2B2AE3D27D4EB4F ^ k*0x165667B19E3779F9
	for i := 0; i < len(name); i++ {
		h = (h ^ uint64(name[i])) * 0x100000001B3
	}
	for _, x := range [3]*Term{a, b, c} {
		h = h*0xFF51AFD7ED558CCD + 0x2545F4914F6CDD1D
		if x != nil {
			h ^= x.h
		}
	}
	t.h = h
	tt.nextID++
	tt.tab[key] = t
	return t
}

// termAfter is the canonical operand order of commutative operators.
func termAfter(a, b *Term) bool {
	if a.h != b.h {
		return a.h > b.h
	}
	return a.id > b.id
}

func mask(w uint8) uint64 {
	if w >= 64 {
		return ^uint64(0)
	}
	return (uint64(1) << w) - 1
}

func (t *Term) IsConst() bool { return t.op == OpConst }
func (t *Term) W() int        { return int(t.w) }
func (t *Term) IsBool() bool  { return t.w == 0 }

// U returns the constant value zero-extended.
func (t *Term) U() uint64 { return t.k }

// S returns the constant value sign-extended to int64.
func (t *Term) S() int64 { return sext64(t.k, t.w) }

func sext64(k uint64, w uint8) int64 {
	if w == 0 || w >= 64 {
		return int64(k)
	}
	sh := 64 - uint(w)
	return int64(k<<sh) >> sh
}

func (tt *TermTable) Bool(b bool) *Term {
	if b {
		return tt.True
	}
	return tt.False
}

func (tt *TermTable) BV(w int, k uint64) *Term {
	return tt.mk(OpConst, uint8(w), k&mask(uint8(w)), nil, nil, nil, "")
}

func (tt *TermTable) Var(name string, w int) *Term {
	n := len(tt.tab)
	t := tt.mk(OpVar, uint8(w), 0, nil, nil, nil, name)
	if len(tt.tab) != n {
		tt.Vars = append(tt.Vars, t)
	}
	return t
}

// ---- boolean connectives ----

func (tt *TermTable) Not(a *Term) *Term {
	if a.op == OpConst {
		return tt.Bool(a.k == 0)
	}
	if a.op == OpNot {
		return a.a
	}
	return tt.mk(OpNot, 0, 0, a, nil, nil, "")
}

func (tt *TermTable) And(a, b *Term) *Term {
	if a.op == OpConst {
		if a.k == 0 {
			return tt.False
		}
		return b
	}
	if b.op == OpConst {
		if b.k == 0 {
			return tt.False
		}
		return a
	}
	if a == b {
		return a
	}
	if (a.op == OpNot && a.a == b) || (b.op == OpNot && b.a == a) {
		return tt.False
	}
	if termAfter(a, b) {
		a, b = b, a
	}
	return tt.mk(OpAnd, 0, 0, a, b, nil, "")
}

func (tt *TermTable) Or(a, b *Term) *Term {
	if a.op == OpConst {
		if a.k != 0 {
			return tt.True
		}
		return b
	}
	if b.op == OpConst {
		if b.k != 0 {
			return tt.True
		}
		return a
	}
	if a == b {
		return a
	}
	if (a.op == OpNot && a.a == b) || (b.op == OpNot && b.a == a) {
		return tt.True
	}
	if termAfter(a, b) {
		a, b = b, a
	}
	return tt.mk(OpOr, 0, 0, a, b, nil, "")
}

func (tt *TermTable) Implies(a, b *Term) *Term { return tt.Or(tt.Not(a), b) }

func (tt *TermTable) Ite(c, a, b *Term) *Term {
	if c.op == OpConst {
		if c.k != 0 {
			return a
		}
		return b
	}
	if a == b {
		return a
	}
	if a.w == 0 {
		// boolean ite
		if a.op == OpConst && b.op == OpConst {
			if a.k != 0 {
				return c
			}
			return tt.Not(c)
		}
		if a.op == OpConst {
			if a.k != 0 {
				return tt.Or(c, b)
			}
			return tt.And(tt.Not(c), b)
		}
		if b.op == OpConst {
			if b.k != 0 {
				return tt.Or(tt.Not(c), a)
			}
			return tt.And(c, a)
		}
	}
	return tt.mk(OpIte, a.w, 0, c, a, b, "")
}

func (tt *TermTable) Eq(a, b *Term) *Term {
	if a.w != b.w {
		panic(fmt.Sprintf("Eq: sort mismatch %d vs %d", a.w, b.w))
	}
	if a == b {
		return tt.True
	}
	if a.op == OpConst && b.op == OpConst {
		return tt.Bool(a.k == b.k)
	}
	if a.op == OpConst {
		a, b = b, a
	}
	if b.op == OpConst {
		if a.w == 0 {
			if b.k != 0 {
				return a
			}
			return tt.Not(a)
		}
		// zext(x) == const
		if a.op == OpZExt {
			if b.k > mask(a.a.w) {
				return tt.False
			}
			return tt.Eq(a.a, tt.BV(int(a.a.w), b.k))
		}
		if a.op == OpSExt {
			// representable iff sign-extension of low bits gives b
			lo := b.k & mask(a.a.w)
			if uint64(sext64(lo, a.a.w))&mask(a.w) != b.k {
				return tt.False
			}
			return tt.Eq(a.a, tt.BV(int(a.a.w), lo))
		}
		if a.op == OpIte && a.a != nil && a.b.op == OpConst && a.c.op == OpConst {
			// ite(c, k1, k2) == k
			if a.b.k == b.k && a.c.k != b.k {
				return a.a
			}
			if a.b.k != b.k && a.c.k == b.k {
				return tt.Not(a.a)
			}
			if a.b.k != b.k && a.c.k != b.k {
				return tt.False
			}
		}
	}
	if termAfter(a, b) {
		a, b = b, a
	}
	return tt.mk(OpEq, 0, 0, a, b, nil, "")
}

// ---- bit-vector ops ----

func (tt *TermTable) bin(op Op, a, b *Term) *Term {
	if a.w != b.w {
		panic(fmt.Sprintf("%s: width mismatch %d vs %d", opNames[op], a.w, b.w))
	}
	w := a.w
	m := mask(w)
	if a.op == OpConst && b.op == OpConst {
		x, y := a.k, b.k
		var r uint64
		switch op {
		case OpAdd:
			r = x + y
		case OpSub:
			r = x - y
		case OpMul:
			r = x * y
		case OpUDiv:
			if y == 0 {
				r = m
			} else {
				r = x / y
			}
		case OpURem:
			if y == 0 {
				r = x
			} else {
				r = x % y
			}
		case OpSDiv:
			sx, sy := sext64(x, w), sext64(y, w)
			if sy == 0 {
				if sx < 0 {
					r = 1
				} else {
					r = m
				}
			} else if sy == -1 {
				r = uint64(-sx)
			} else {
				r = uint64(sx / sy)
			}
		case OpSRem:
			sx, sy := sext64(x, w), sext64(y, w)
			if sy == 0 {
				r = x
			} else if sy == -1 {
				r = 0
			} else {
				r = uint64(sx % sy)
			}
		case OpBAnd:
			r = x & y
		case OpBOr:
			r = x | y
		case OpBXor:
			r = x ^ y
		case OpShl:
			if y >= uint64(w) {
				r = 0
			} else {
				r = x << y
			}
		case OpLShr:
			if y >= uint64(w) {
				r = 0
			} else {
				r = x >> y
			}
		case OpAShr:
			sx := sext64(x, w)
			if y >= uint64(w) {
				if sx < 0 {
					r = m
				} else {
					r = 0
				}
			} else {
				r = uint64(sx >> y)
			}
		}
		return tt.BV(int(w), r)
	}
	// identities
	switch op {
	case OpAdd:
		if a.op == OpConst && a.k == 0 {
			return b
		}
		if b.op == OpConst && b.k == 0 {
			return a
		}
	case OpSub:
		if b.op == OpConst && b.k == 0 {
			return a
		}
		if a == b {
			return tt.BV(int(w), 0)
		}
	case OpMul:
		if a.op == OpConst {
			a, b = b, a
		}
		if b.op == OpConst {
			if b.k == 0 {
				return b
			}
			if b.k == 1 {
				return a
			}
		}
	case OpBAnd:
		if a.op == OpConst {
			a, b = b, a
		}
		if b.op == OpConst {
			if b.k == 0 {
				return b
			}
			if b.k == m {
				return a
			}
			if a.op == OpZExt && b.k&mask(a.a.w) == mask(a.a.w) {
				return a
			}
		}
		if a == b {
			return a
		}
	case OpBOr:
		if a.op == OpConst {
			a, b = b, a
		}
		if b.op == OpConst {
			if b.k == 0 {
				return a
			}
			if b.k == m {
				return b
			}
		}
		if a == b {
			return a
		}
	case OpBXor:
		if a.op == OpConst && a.k == 0 {
			return b
		}
		if b.op == OpConst && b.k == 0 {
			return a
		}
	case OpShl, OpLShr, OpAShr:
		if b.op == OpConst && b.k == 0 {
			return a
		}
	}
	return tt.mk(op, w, 0, a, b, nil, "")
}

func (tt *TermTable) Add(a, b *Term) *Term  { return tt.bin(OpAdd, a, b) }
func (tt *TermTable) Sub(a, b *Term) *Term  { return tt.bin(OpSub, a, b) }
func (tt *TermTable) Mul(a, b *Term) *Term  { return tt.bin(OpMul, a, b) }
func (tt *TermTable) UDiv(a, b *Term) *Term { return tt.bin(OpUDiv, a, b) }
func (tt *TermTable) URem(a, b *Term) *Term { return tt.bin(OpURem, a, b) }
func (tt *TermTable) SDiv(a, b *Term) *Term { return tt.bin(OpSDiv, a, b) }
func (tt *TermTable) SRem(a, b *Term) *Term { return tt.bin(OpSRem, a, b) }
func (tt *TermTable) BAnd(a, b *Term) *Term { return tt.bin(OpBAnd, a, b) }
func (tt *TermTable) BOr(a, b *Term) *Term  { return tt.bin(OpBOr, a, b) }
func (tt *TermTable) BXor(a, b *Term) *Term { return tt.bin(OpBXor, a, b) }
func (tt *TermTable) Shl(a, b *Term) *Term  { return tt.bin(OpShl, a, b) }
func (tt *TermTable) LShr(a, b *Term) *Term { return tt.bin(OpLShr, a, b) }
func (tt *TermTable) AShr(a, b *Term) *Term { return tt.bin(OpAShr, a, b) }

func (tt *TermTable) Neg(a *Term) *Term {
	if a.op == OpConst {
		return tt.BV(int(a.w), -a.k)
	}
	return tt.mk(OpNeg, a.w, 0, a, nil, nil, "")
}

func (tt *TermTable) BNot(a *Term) *Term {
	if a.op == OpConst {
		return tt.BV(int(a.w), ^a.k)
	}
	return tt.mk(OpBNot, a.w, 0, a, nil, nil, "")
}

// urange returns a conservative unsigned range of t.
func urange(t *Term) (lo, hi uint64) {
	switch t.op {
	case OpConst:
		return t.k, t.k
	case OpZExt:
		return urange(t.a)
	case OpIte:
		l1, h1 := urange(t.b)
		l2, h2 := urange(t.c)
		if l2 < l1 {
			l1 = l2
		}
		if h2 > h1 {
			h1 = h2
		}
		return l1, h1
	}
	return 0, mask(t.w)
}

func (tt *TermTable) cmp(op Op, a, b *Term) *Term {
	if a.w != b.w {
		panic(fmt.Sprintf("%s: width mismatch %d vs %d", opNames[op], a.w, b.w))
	}
	if a.op == OpConst && b.op == OpConst {
		switch op {
		case OpUlt:
			return tt.Bool(a.k < b.k)
		case OpUle:
			return tt.Bool(a.k <= b.k)
		case OpSlt:
			return tt.Bool(sext64(a.k, a.w) < sext64(b.k, b.w))
		case OpSle:
			return tt.Bool(sext64(a.k, a.w) <= sext64(b.k, b.w))
		}
	}
	if a == b {
		return tt.Bool(op == OpUle || op == OpSle)
	}
	// push comparisons through zero-extension when a constant is involved
	if a.op == OpZExt && b.op == OpConst || b.op == OpZExt && a.op == OpConst {
		signedOK := true
		// zext values are non-negative when the source is narrower
		var z, c *Term
		zLeft := a.op == OpZExt
		if zLeft {
			z, c = a, b
		} else {
			z, c = b, a
		}
		if z.a.w >= z.w {
			signedOK = false
		}
		if signedOK || op == OpUlt || op == OpUle {
			iw := z.a.w
			im := mask(iw)
			var cv int64
			neg := false
			big := false
			if op == OpSlt || op == OpSle {
				cv = sext64(c.k, c.w)
				if cv < 0 {
					neg = true
				} else if uint64(cv) > im {
					big = true
				}
			} else {
				if c.k > im {
					big = true
				}
				cv = int64(c.k)
			}
			switch {
			case neg:
				// z >= 0 > c
				if zLeft {
					return tt.False // z < c or z <= c : false
				}
				return tt.True // c < z
			case big:
				if zLeft {
					return tt.True
				}
				return tt.False
			default:
				ic := tt.BV(int(iw), uint64(cv))
				uop := OpUlt
				if op == OpUle || op == OpSle {
					uop = OpUle
				}
				if zLeft {
					return tt.cmp(uop, z.a, ic)
				}
				return tt.cmp(uop, ic, z.a)
			}
		}
	}
	if op == OpUlt || op == OpUle {
		la, ha := urange(a)
		lb, hb := urange(b)
		if op == OpUlt {
			if ha < lb {
				return tt.True
			}
			if la >= hb {
				return tt.False
			}
		} else {
			if ha <= lb {
				return tt.True
			}
			if la > hb {
				return tt.False
			}
		}
	}
	return tt.mk(op, 0, 0, a, b, nil, "")
}

func (tt *TermTable) Ult(a, b *Term) *Term { return tt.cmp(OpUlt, a, b) }
func (tt *TermTable) Ule(a, b *Term) *Term { return tt.cmp(OpUle, a, b) }
func (tt *TermTable) Slt(a, b *Term) *Term { return tt.cmp(OpSlt, a, b) }
func (tt *TermTable) Sle(a, b *Term) *Term { return tt.cmp(OpSle, a, b) }

func (tt *TermTable) ZExt(a *Term, w int) *Term {
	if int(a.w) == w {
		return a
	}
	if int(a.w) > w {
		return tt.Extract(a, w-1, 0)
	}
	if a.op == OpConst {
		return tt.BV(w, a.k)
	}
	if a.op == OpZExt {
		return tt.ZExt(a.a, w)
	}
	return tt.mk(OpZExt, uint8(w), uint64(w), a, nil, nil, "")
}

func (tt *TermTable) SExt(a *Term, w int) *Term {
	if int(a.w) == w {
		return a
	}
	if int(a.w) > w {
		return tt.Extract(a, w-1, 0)
	}
	if a.op == OpConst {
		return tt.BV(w, uint64(sext64(a.k, a.w)))
	}
	if a.op == OpZExt {
		// zero-extended value is non-negative: sext == zext
		return tt.ZExt(a.a, w)
	}
	return tt.mk(OpSExt, uint8(w), uint64(w), a, nil, nil, "")
}

func (tt *TermTable) Extract(a *Term, hi, lo int) *Term {
	w := hi - lo + 1
	if lo == 0 && w == int(a.w) {
		return a
	}
	if a.op == OpConst {
		return tt.BV(w, a.k>>uint(lo))
	}
	if lo == 0 && (a.op == OpZExt || a.op == OpSExt) {
		if w <= int(a.a.w) {
			return tt.Extract(a.a, hi, 0)
		}
		if a.op == OpZExt {
			return tt.ZExt(a.a, w)
		}
		return tt.SExt(a.a, w)
	}
	return tt.mk(OpExtract, uint8(w), uint64(hi)<<8|uint64(lo), a, nil, nil, "")
}

// UF builds an application of an uninterpreted function (contract stubs).
func (tt *TermTable) UF(name string, w int, args ...*Term) *Term {
	var a, b, c *Term
	if len(args) > 0 {
		a = args[0]
	}
	if len(args) > 1 {
		b = args[1]
	}
	if len(args) > 2 {
		c = args[2]
	}
	return tt.mk(OpUF, uint8(w), 0, a, b, c, name)
}

// ---- printing ----

func sortStr(w uint8) string {
	if w == 0 {
		return "Bool"
	}
	return fmt.Sprintf("(_ BitVec %d)", w)
}

func (t *Term) ref() string {
	switch t.op {
	case OpConst:
		if t.w == 0 {
			if t.k != 0 {
				return "true"
			}
			return "false"
		}
		if t.w%4 == 0 {
			return fmt.Sprintf("#x%0*x", int(t.w)/4, t.k)
		}
		return fmt.Sprintf("(_ bv%d %d)", t.k, t.w)
	case OpVar:
		return t.name
	}
	return fmt.Sprintf("t%d", t.id)
}

func (t *Term) body() string {
	switch t.op {
	case OpNot, OpNeg, OpBNot:
		return fmt.Sprintf("(%s %s)", opNames[t.op], t.a.ref())
	case OpIte:
		return fmt.Sprintf("(ite %s %s %s)", t.a.ref(), t.b.ref(), t.c.ref())
	case OpZExt:
		return fmt.Sprintf("((_ zero_extend %d) %s)", int(t.w)-int(t.a.w), t.a.ref())
	case OpSExt:
		return fmt.Sprintf("((_ sign_extend %d) %s)", int(t.w)-int(t.a.w), t.a.ref())
	case OpExtract:
		return fmt.Sprintf("((_ extract %d %d) %s)", t.k>>8, t.k&0xff, t.a.ref())
	case OpUF:
		s := "(" + t.name
		for _, x := range []*Term{t.a, t.b, t.c} {
			if x != nil {
				s += " " + x.ref()
			}
		}
		return s + ")"
	}
	return fmt.Sprintf("(%s %s %s)", opNames[t.op], t.a.ref(), t.b.ref())
}

// Defs appends to out the SMT-LIB definitions needed before t can be
// referenced; `defined` tracks what the receiving context already has.
func (t *Term) defs(defined map[int]bool, out *[]string) {
	if t == nil || t.op == OpConst || defined[t.id] {
		return
	}
	defined[t.id] = true
	if t.op == OpVar {
		*out = append(*out, fmt.Sprintf("(declare-const %s %s)", t.name, sortStr(t.w)))
		return
	}
	t.a.defs(defined, out)
	t.b.defs(defined, out)
	t.c.defs(defined, out)
	if t.op == OpUF {
		key := -1 - len(t.name) // UF declarations tracked by name through ufDecl
		_ = key
	}
	*out = append(*out, fmt.Sprintf("(define-fun t%d () %s %s)", t.id, sortStr(t.w), t.body()))
}

// Standalone renders a self-contained SMT-LIB2 script asserting all of
// `asserts` (used for cross-solver re-decision).
func Standalone(ufDecls []string, asserts []*Term) string {
	var sb strings.Builder
	defined := map[int]bool{}
	var out []string
	for _, a := range asserts {
		a.defs(defined, &out)
	}
	for _, d := range ufDecls {
		sb.WriteString(d)
		sb.WriteByte('\n')
	}
	for _, l := range out {
		sb.WriteString(l)
		sb.WriteByte('\n')
	}
	for _, a := range asserts {
		fmt.Fprintf(&sb, "(assert %s)\n", a.ref())
	}
	sb.WriteString("(check-sat)\n")
	return sb.String()
}

// String gives a readable (tree) rendering for diagnostics.
func (t *Term) String() string {
	if t == nil {
		return "<nil>"
	}
	switch t.op {
	case OpConst, OpVar:
		return t.ref()
	case OpNot, OpNeg, OpBNot:
		return fmt.Sprintf("(%s %s)", opNames[t.op], t.a)
	case OpIte:
		return fmt.Sprintf("(ite %s %s %s)", t.a, t.b, t.c)
	case OpZExt, OpSExt:
		return fmt.Sprintf("(%s%d %s)", opNames[t.op], t.w, t.a)
	case OpExtract:
		return fmt.Sprintf("(extract[%d:%d] %s)", t.k>>8, t.k&0xff, t.a)
	case OpUF:
		return fmt.Sprintf("(%s %v %v %v)", t.name, t.a, t.b, t.c)
	}
	return fmt.Sprintf("(%s %s %s)", opNames[t.op], t.a, t.b)
}

// evalBin evaluates a binary bit-vector / comparison operator on constants.
func evalBin(op Op, w uint8, x, y uint64) uint64 {
	m := mask(w)
	var r uint64
	switch op {
	case OpAdd:
		r = x + y
	case OpSub:
		r = x - y
	case OpMul:
		r = x * y
	case OpUDiv:
		if y == 0 {
			r = m
		} else {
			r = x / y
		}
	case OpURem:
		if y == 0 {
			r = x
		} else {
			r = x % y
		}
	case OpSDiv:
		sx, sy := sext64(x, w), sext64(y, w)
		if sy == 0 {
			if sx < 0 {
				r = 1
			} else {
				r = m
			}
		} else if sy == -1 {
			r = uint64(-sx)
		} else {
			r = uint64(sx / sy)
		}
	case OpSRem:
		sx, sy := sext64(x, w), sext64(y, w)
		if sy == 0 {
			r = x
		} else if sy == -1 {
			r = 0
		} else {
			r = uint64(sx % sy)
		}
	case OpBAnd:
		r = x & y
	case OpBOr:
		r = x | y
	case OpBXor:
		r = x ^ y
	case OpShl:
		if y >= uint64(w) {
			r = 0
		} else {
			r = x << y
		}
	case OpLShr:
		if y >= uint64(w) {
			r = 0
		} else {
			r = x >> y
		}
	case OpAShr:
		sx := sext64(x, w)
		if y >= uint64(w) {
			if sx < 0 {
				r = m
			} else {
				r = 0
			}
		} else {
			r = uint64(sx >> y)
		}
	case OpUlt:
		if x < y {
			return 1
		}
		return 0
	case OpUle:
		if x <= y {
			return 1
		}
		return 0
	case OpSlt:
		if sext64(x, w) < sext64(y, w) {
			return 1
		}
		return 0
	case OpSle:
		if sext64(x, w) <= sext64(y, w) {
			return 1
		}
		return 0
	}
	return r & m
}

// freeVar returns (the variable, 1) if t depends on exactly one variable,
// (nil, 0) if it is ground and (nil, 2) if it depends on several (or on an
// uninterpreted function).
func (t *Term) freeVar() (*Term, int) {
	if t.fvDone {
		return t.fv, int(t.fvN)
	}
	t.fvDone = true
	switch t.op {
	case OpConst:
		t.fvN = 0
	case OpVar:
		t.fvN, t.fv = 1, t
	case OpUF:
		t.fvN = 2
	default:
		var v *Term
		n := 0
		for _, x := range [3]*Term{t.a, t.b, t.c} {
			if x == nil {
				continue
			}
			xv, xn := x.freeVar()
			switch {
			case xn >= 2:
				n = 2
			case xn == 1 && n < 2:
				if v == nil {
					v, n = xv, 1
				} else if v != xv {
					n = 2
				}
			}
		}
		t.fvN = int8(n)
		if n == 1 {
			t.fv = v
		}
	}
	return t.fv, int(t.fvN)
}

// collectVars appends the distinct variables of t to out.
func (t *Term) collectVars(seen map[int]bool, out *[]*Term) {
	if t == nil || seen[t.id] {
		return
	}
	seen[t.id] = true
	if t.op == OpVar {
		*out = append(*out, t)
		return
	}
	if _, n := t.freeVar(); n == 0 {
		return
	}
	t.a.collectVars(seen, out)
	t.b.collectVars(seen, out)
	t.c.collectVars(seen, out)
}

// eval1 evaluates a term that depends on the single variable x under x = val.
// epoch must be fresh for every (x, val) pair.
func (tt *TermTable) eval1(t *Term, val uint64, epoch uint32) uint64 {
	switch t.op {
	case OpConst:
		return t.k
	case OpVar:
		return val & maskb(t.w)
	}
	if t.evEpoch == epoch {
		return t.evVal
	}
	var r uint64
	switch t.op {
	case OpNot:
		r = 1 - tt.eval1(t.a, val, epoch)
	case OpAnd:
		r = tt.eval1(t.a, val, epoch)
		if r != 0 {
			r = tt.eval1(t.b, val, epoch)
		}
	case OpOr:
		r = tt.eval1(t.a, val, epoch)
		if r == 0 {
			r = tt.eval1(t.b, val, epoch)
		}
	case OpIte:
		if tt.eval1(t.a, val, epoch) != 0 {
			r = tt.eval1(t.b, val, epoch)
		} else {
			r = tt.eval1(t.c, val, epoch)
		}
	case OpEq:
		if tt.eval1(t.a, val, epoch) == tt.eval1(t.b, val, epoch) {
			r = 1
		}
	case OpZExt:
		r = tt.eval1(t.a, val, epoch)
	case OpSExt:
		r = uint64(sext64(tt.eval1(t.a, val, epoch), t.a.w)) & mask(t.w)
	case OpExtract:
		r = (tt.eval1(t.a, val, epoch) >> (t.k & 0xff)) & mask(t.w)
	case OpNeg:
		r = (-tt.eval1(t.a, val, epoch)) & mask(t.w)
	case OpBNot:
		r = (^tt.eval1(t.a, val, epoch)) & mask(t.w)
	default:
		r = evalBin(t.op, t.a.w, tt.eval1(t.a, val, epoch), tt.eval1(t.b, val, epoch))
	}
	t.evEpoch = epoch
	t.evVal = r
	return r
}

// ---- model evaluation ----

// Model maps variable term id -> value. Missing variables evaluate to 0.
type Model map[int]uint64

// Eval evaluates t under m. UF applications evaluate through m.uf if
// present, else 0.
func (tt *TermTable) Eval(t *Term, m Model, memo map[int]uint64) uint64 {
	switch t.op {
	case OpConst:
		return t.k
	case OpVar:
		return m[t.id] & maskb(t.w)
	}
	if v, ok := memo[t.id]; ok {
		return v
	}
	ev := func(x *Term) uint64 { return tt.Eval(x, m, memo) }
	var r uint64
	switch t.op {
	case OpNot:
		r = 1 - ev(t.a)
	case OpAnd:
		r = ev(t.a) & ev(t.b)
	case OpOr:
		r = ev(t.a) | ev(t.b)
	case OpIte:
		if ev(t.a) != 0 {
			r = ev(t.b)
		} else {
			r = ev(t.c)
		}
	case OpEq:
		if ev(t.a) == ev(t.b) {
			r = 1
		}
	case OpUF:
		r = m[t.id] & maskb(t.w)
	case OpZExt:
		r = ev(t.a)
	case OpSExt:
		r = uint64(sext64(ev(t.a), t.a.w)) & mask(t.w)
	case OpExtract:
		r = (ev(t.a) >> (t.k & 0xff)) & mask(t.w)
	case OpNeg:
		r = (-ev(t.a)) & mask(t.w)
	case OpBNot:
		r = (^ev(t.a)) & mask(t.w)
	default:
		r = evalBin(t.op, t.a.w, ev(t.a), ev(t.b))
	}
	memo[t.id] = r
	return r
}

func maskb(w uint8) uint64 {
	if w == 0 {
		return 1
	}
	return mask(w)
}
